(* ScanFinal.v — assembling the phases: the numeric HistorySize computed by the
   scan model equals the saturated census of the reachable set. *)
From Coq Require Import Permutation.
From GS Require Import GoSem Counts Repo RepoProofs Deferred Scan ScanProofs ScanTree ScanMain DispatchScan.
Open Scope N_scope.

(* ---- field-wise view of the aggregation: every field is its own fold ---- *)
Definition hist_fields (h : hist) : list N :=
  [h_ncommits h; h_scommits h; h_maxcommit h; h_depth h; h_maxparents h;
   h_ntrees h; h_strees h; h_nentries h; h_maxentries h;
   h_nblobs h; h_sblobs h; h_maxblob h; h_ntags h; h_tagdepth h; h_nrefs h;
   h_xdepth h; h_xlen h; h_xtrees h; h_xblobs h; h_xbsize h; h_xlinks h; h_xsubs h].

Lemma hist_ext h1 h2 : hist_fields h1 = hist_fields h2 -> h1 = h2.
Proof. destruct h1, h2. unfold hist_fields. cbn. intros H. inversion H. subst. reflexivity. Qed.

(* per-field step functions *)
Definition g_ncommits (a : N) (e : ev) := match e with EvCommit _ _ _ _ => sat_add32 a 1 | _ => a end.
Definition g_scommits (a : N) (e : ev) := match e with EvCommit _ _ s _ => sat_add64 a (u64 s) | _ => a end.
Definition g_maxcommit (a : N) (e : ev) := match e with EvCommit _ _ s _ => mxp a s | _ => a end.
Definition g_depth (a : N) (e : ev) := match e with EvCommit _ d _ _ => mxp a d | _ => a end.
Definition g_maxparents (a : N) (e : ev) := match e with EvCommit _ _ _ n => mxp a n | _ => a end.
Definition g_ntrees (a : N) (e : ev) := match e with EvTree _ _ _ _ => sat_add32 a 1 | _ => a end.
Definition g_strees (a : N) (e : ev) := match e with EvTree _ _ s _ => sat_add64 a (u64 s) | _ => a end.
Definition g_nentries (a : N) (e : ev) := match e with EvTree _ _ _ n => sat_add64 a (u64 n) | _ => a end.
Definition g_maxentries (a : N) (e : ev) := match e with EvTree _ _ _ n => mx a n | _ => a end.
Definition g_nblobs (a : N) (e : ev) := match e with EvBlob _ _ => sat_add32 a 1 | _ => a end.
Definition g_sblobs (a : N) (e : ev) := match e with EvBlob _ s => sat_add64 a (u64 s) | _ => a end.
Definition g_maxblob (a : N) (e : ev) := match e with EvBlob _ s => mx a s | _ => a end.
Definition g_ntags (a : N) (e : ev) := match e with EvTag _ _ _ => sat_add32 a 1 | _ => a end.
Definition g_tagdepth (a : N) (e : ev) := match e with EvTag _ d _ => mx a d | _ => a end.
Definition g_nrefs (a : N) (e : ev) := match e with EvRef _ _ _ true _ => sat_add32 a 1 | _ => a end.
Definition g_x (f : tsz -> N) (a : N) (e : ev) := match e with EvTree _ ts _ _ => mx a (f ts) | _ => a end.

Definition step_fields (l : list N) (e : ev) : list N :=
  match l with
  | [a1; a2; a3; a4; a5; a6; a7; a8; a9; a10; a11; a12; a13; a14; a15; a16; a17; a18; a19; a20; a21; a22] =>
      [g_ncommits a1 e; g_scommits a2 e; g_maxcommit a3 e; g_depth a4 e; g_maxparents a5 e;
       g_ntrees a6 e; g_strees a7 e; g_nentries a8 e; g_maxentries a9 e;
       g_nblobs a10 e; g_sblobs a11 e; g_maxblob a12 e; g_ntags a13 e; g_tagdepth a14 e; g_nrefs a15 e;
       g_x t_depth a16 e; g_x t_len a17 e; g_x t_trees a18 e; g_x t_blobs a19 e; g_x t_bsize a20 e;
       g_x t_links a21 e; g_x t_subs a22 e]
  | _ => l
  end.

Lemma record_fields h e : hist_fields (record h e) = step_fields (hist_fields h) e.
Proof. destruct e; try reflexivity. Qed.

Lemma fold_record_fields evs : forall h, hist_fields (fold_left record evs h) = fold_left step_fields evs (hist_fields h).
Proof. induction evs as [|e evs IH]; intros h; [reflexivity|]. cbn [fold_left]. rewrite IH, record_fields. reflexivity. Qed.

(* a list of 22 independent folds *)
Lemma fold_step_fields evs : forall a1 a2 a3 a4 a5 a6 a7 a8 a9 a10 a11 a12 a13 a14 a15 a16 a17 a18 a19 a20 a21 a22,
  fold_left step_fields evs [a1; a2; a3; a4; a5; a6; a7; a8; a9; a10; a11; a12; a13; a14; a15; a16; a17; a18; a19; a20; a21; a22] =
  [fold_left g_ncommits evs a1; fold_left g_scommits evs a2; fold_left g_maxcommit evs a3; fold_left g_depth evs a4;
   fold_left g_maxparents evs a5; fold_left g_ntrees evs a6; fold_left g_strees evs a7; fold_left g_nentries evs a8;
   fold_left g_maxentries evs a9; fold_left g_nblobs evs a10; fold_left g_sblobs evs a11; fold_left g_maxblob evs a12;
   fold_left g_ntags evs a13; fold_left g_tagdepth evs a14; fold_left g_nrefs evs a15;
   fold_left (g_x t_depth) evs a16; fold_left (g_x t_len) evs a17; fold_left (g_x t_trees) evs a18;
   fold_left (g_x t_blobs) evs a19; fold_left (g_x t_bsize) evs a20; fold_left (g_x t_links) evs a21;
   fold_left (g_x t_subs) evs a22].
Proof. induction evs as [|e evs IH]; intros; [reflexivity|]. cbn [fold_left step_fields]. apply IH. Qed.

(* folds over a class of events *)
Lemma fold_map {A B C} (f : A -> B -> A) (g : C -> B) l : forall a,
  fold_left f (map g l) a = fold_left (fun a x => f a (g x)) l a.
Proof. induction l as [|x l IH]; intros a; [reflexivity|]. simpl. apply IH. Qed.

Lemma fold_const {A B} (l : list B) (a : A) : fold_left (fun a _ => a) l a = a.
Proof. induction l; simpl; auto. Qed.

Lemma fold_ext {A B} (f g : A -> B -> A) l : (forall a x, f a x = g a x) -> forall a, fold_left f l a = fold_left g l a.
Proof. intros H. induction l as [|x l IH]; intros a; [reflexivity|]. simpl. rewrite H. apply IH. Qed.

Lemma fold_count32 {B} (l : list B) a : a <= cap32 ->
  fold_left (fun a (_ : B) => sat_add32 a 1) l a = sat32 (a + N.of_nat (length l)).
Proof.
  revert a. induction l as [|x l IH]; intros a Ha; simpl length; cbn [fold_left].
  - rewrite N.add_0_r. symmetry. now apply sat32_id.
  - rewrite IH by apply sat32_le. unfold sat_add32. rewrite sat32_add_l. f_equal. lia.
Qed.

Lemma fold_sum64 {B} (f : B -> N) (l : list B) a : a <= cap64 -> (forall x, In x l -> f x <= cap64) ->
  fold_left (fun a x => sat_add64 a (u64 (f x))) l a = sat64 (a + sumN (map f l)).
Proof.
  revert a. induction l as [|x l IH]; intros a Ha Hf; cbn [fold_left map sumN fold_right].
  - rewrite N.add_0_r. symmetry. now apply sat64_id.
  - rewrite IH; [|apply sat64_le|intros; apply Hf; now right].
    rewrite u64_id by (specialize (Hf x (or_introl eq_refl)); unfold in64, cap64, MaxUint64, two64 in *; lia).
    unfold sat_add64. rewrite sat64_add_l. f_equal. unfold sumN. lia.
Qed.

Lemma fold_mx {B} (f : B -> N) (l : list B) a :
  fold_left (fun a x => mx a (f x)) l a = N.max a (maxN (map f l)).
Proof.
  revert a. induction l as [|x l IH]; intros a; cbn [fold_left map maxN fold_right]; [lia|].
  rewrite IH, mx_max. unfold maxN. lia.
Qed.

Lemma fold_mxp {B} (f : B -> N) (l : list B) a :
  fold_left (fun a x => mxp a (f x)) l a = N.max a (maxN (map f l)).
Proof.
  revert a. induction l as [|x l IH]; intros a; cbn [fold_left map maxN fold_right]; [lia|].
  rewrite IH, mxp_max. unfold maxN. lia.
Qed.

Lemma maxN_sat32 l : maxN (map sat32 l) = sat32 (maxN l).
Proof. induction l as [|x l IH]; cbn [map maxN fold_right]; [reflexivity|]. fold (maxN (map sat32 l)). rewrite IH. fold (maxN l). apply sat32_max. Qed.

Lemma maxN_sat64 l : maxN (map sat64 l) = sat64 (maxN l).
Proof. induction l as [|x l IH]; cbn [map maxN fold_right]; [reflexivity|]. fold (maxN (map sat64 l)). rewrite IH. fold (maxN l). apply sat64_max. Qed.

(* permutation invariance of the list summaries *)
Lemma sumN_perm l1 l2 : Permutation l1 l2 -> sumN l1 = sumN l2.
Proof. induction 1; cbn [sumN fold_right] in *; unfold sumN in *; lia. Qed.
Lemma maxN_perm l1 l2 : Permutation l1 l2 -> maxN l1 = maxN l2.
Proof. induction 1; cbn [maxN fold_right] in *; unfold maxN in *; lia. Qed.

(* ---- phase 1 ---- *)
Definition has_kind (r : repo) (k : okind) (o : oid) : bool := kind_in r o k.

Definition blob_ev (r : repo) (o : oid) : ev := EvBlob o (sat32 (match lookup r o with Some (Blob s) => s | _ => 0 end)).

Lemma phase1_ok r : forall enum b0, (forall o, In o enum -> In o (ids r)) ->
  exists b, phase1 r enum b0 =
    SOk (b, map (blob_ev r) (filter (has_kind r KBlob) enum),
         filter (has_kind r KTree) enum, filter (has_kind r KCommit) enum, filter (has_kind r KTag) enum)
  /\ (forall o, b o = if memb o enum && has_kind r KBlob o
                      then Some (sat32 (match lookup r o with Some (Blob s) => s | _ => 0 end)) else b0 o).
Proof.
  induction enum as [|o enum IH]; intros b0 Hin.
  - exists b0. split; [reflexivity|]. intros o. reflexivity.
  - cbn [phase1]. destruct (In_lookup r o (Hin o (or_introl eq_refl))) as (ob & Hl). rewrite Hl.
    assert (Hin' : forall o', In o' enum -> In o' (ids r)) by (intros; apply Hin; now right).
    unfold has_kind, kind_in. cbn [filter]. rewrite Hl.
    destruct ob as [s|s es|s t ps|s t k]; cbn [kind_of okind_eqb].
    + destruct (IH (fupd b0 o (Some (sat32 s))) Hin') as (b & Hb & Hbo). rewrite Hb. exists b. split.
      * cbn [map]. unfold blob_ev at 2. rewrite Hl. reflexivity.
      * intros o'. rewrite Hbo. unfold memb. cbn [existsb]. unfold fupd.
        destruct (N.eqb_spec o' o) as [->|Hne]; [|reflexivity].
        unfold has_kind, kind_in. rewrite Hl. cbn [kind_of okind_eqb orb andb].
        rewrite andb_true_r. destruct (existsb (N.eqb o) enum); reflexivity.
    + destruct (IH b0 Hin') as (b & Hb & Hbo). rewrite Hb. exists b. split; [reflexivity|].
      intros o'. rewrite Hbo. unfold memb. cbn [existsb]. destruct (N.eqb_spec o' o) as [->|Hne]; [|reflexivity].
      unfold has_kind, kind_in. rewrite Hl. cbn [kind_of okind_eqb]. rewrite !andb_false_r. reflexivity.
    + destruct (IH b0 Hin') as (b & Hb & Hbo). rewrite Hb. exists b. split; [reflexivity|].
      intros o'. rewrite Hbo. unfold memb. cbn [existsb]. destruct (N.eqb_spec o' o) as [->|Hne]; [|reflexivity].
      unfold has_kind, kind_in. rewrite Hl. cbn [kind_of okind_eqb]. rewrite !andb_false_r. reflexivity.
    + destruct (IH b0 Hin') as (b & Hb & Hbo). rewrite Hb. exists b. split; [reflexivity|].
      intros o'. rewrite Hbo. unfold memb. cbn [existsb]. destruct (N.eqb_spec o' o) as [->|Hne]; [|reflexivity].
      unfold has_kind, kind_in. rewrite Hl. cbn [kind_of okind_eqb]. rewrite !andb_false_r. reflexivity.
Qed.

(* ---- the contract, in Prop form ---- *)
Lemma nodup_b_NoDup l : nodup_b l = true -> NoDup l.
Proof.
  induction l as [|x l IH]; intros H; [constructor|]. cbn [nodup_b] in H. apply andb_true_iff in H. destruct H as [H1 H2].
  constructor; [|auto]. intros Hin. apply memb_In in Hin. rewrite Hin in H1. discriminate.
Qed.

Lemma cbp_split r : forall enum, commits_before_parents r enum = true ->
  forall pre c post s t ps, enum = pre ++ c :: post -> lookup r c = Some (Commit s t ps) ->
  forall p, In p ps -> In p post.
Proof.
  induction enum as [|o enum IH]; intros H pre c post s t ps E Hl p Hp.
  - destruct pre; discriminate.
  - cbn [commits_before_parents] in H. apply andb_true_iff in H. destruct H as [H1 H2].
    destruct pre as [|x pre]; simpl in E; inversion E; subst.
    + rewrite Hl in H1. rewrite forallb_forall in H1. apply memb_In. now apply H1.
    + eapply IH; eauto.
Qed.

Record contract (r : repo) (roots : list oid) (enum : list oid) : Prop := {
  ct_nodup : NoDup enum;
  ct_sound : forall o, In o enum -> In o (reachable r roots);
  ct_complete : forall o, In o (reachable r roots) -> In o enum;
  ct_order : forall pre c post s t ps, enum = pre ++ c :: post -> lookup r c = Some (Commit s t ps) ->
             forall p, In p ps -> In p post }.

Lemma contract_b_spec r roots enum : contract_b r roots enum = true -> contract r roots enum.
Proof.
  unfold contract_b. rewrite !andb_true_iff. intros [[[H1 H2] H3] H4]. constructor.
  - now apply nodup_b_NoDup.
  - intros o Ho. rewrite forallb_forall in H2. apply memb_In. now apply H2.
  - intros o Ho. rewrite forallb_forall in H3. apply memb_In. now apply H3.
  - now apply cbp_split.
Qed.

Lemma contract_perm r roots enum : wf_b r = true -> contract r roots enum -> Permutation enum (reachable r roots).
Proof.
  intros Hwf C. apply NoDup_Permutation; [apply C|now apply reachable_nodup|].
  intros o. split; [apply C|apply C].
Qed.

(* ---- weakening of well-formedness facts to the whole history ---- *)
Lemma kind_in_cons o1 ob1 r o k : ~ In o1 (ids r) -> kind_in r o k = true -> kind_in ((o1, ob1) :: r) o k = true.
Proof.
  intros Hn H. pose proof (kind_in_In _ _ _ H) as Hi. unfold kind_in in *. rewrite lookup_cons_ne; [assumption|].
  intros ->. contradiction.
Qed.

Lemma obj_ok_cons o1 ob1 r ob : ~ In o1 (ids r) -> obj_ok r ob = true -> obj_ok ((o1, ob1) :: r) ob = true.
Proof.
  intros Hn. destruct ob as [s|s es|s t ps|s t k]; cbn [obj_ok]; auto.
  - rewrite !forallb_forall. intros H e He. specialize (H e He). unfold entry_ok in *.
    destruct (entry_kind (e_mode e)); auto using kind_in_cons.
  - rewrite !andb_true_iff, !forallb_forall. intros [H1 H2]. split; [now apply kind_in_cons|].
    intros p Hp. apply kind_in_cons; auto.
  - now apply kind_in_cons.
Qed.

Lemma wf_lookup_ok r : wf_b r = true -> forall o ob, lookup r o = Some ob -> obj_ok r ob = true.
Proof.
  induction r as [|[o1 ob1] r IH]; intros Hw o ob Hl; [discriminate|].
  apply wf_cons in Hw. destruct Hw as (H1 & H2 & H3). simpl in Hl.
  destruct (N.eqb_spec o o1) as [->|Hne].
  - inversion Hl; subst. now apply obj_ok_cons.
  - apply obj_ok_cons; [assumption|]. eapply IH; eauto.
Qed.

(* ---- lists of objects vs lists of ids ---- *)

Lemma objs_of_filter r k : forall l, (forall o, In o l -> In o (ids r)) ->
  filter (fun ob => okind_eqb (kind_of ob) k) (objs_of r l) = objs_of r (filter (has_kind r k) l).
Proof.
  induction l as [|o l IH]; intros H; [reflexivity|]. unfold objs_of in *. cbn [flat_map filter].
  destruct (In_lookup r o (H o (or_introl eq_refl))) as (ob & Hl). unfold has_kind, kind_in. rewrite Hl.
  cbn [app filter]. rewrite IH by (intros; apply H; now right).
  destruct (okind_eqb (kind_of ob) k); [cbn [flat_map]; rewrite Hl; reflexivity|reflexivity].
Qed.

Lemma objs_of_map {A} (f : obj -> A) (g : oid -> A) r : forall l,
  (forall o ob, In o l -> lookup r o = Some ob -> f ob = g o) -> (forall o, In o l -> In o (ids r)) ->
  map f (objs_of r l) = map g l.
Proof.
  induction l as [|o l IH]; intros Hfg H; [reflexivity|]. unfold objs_of in *. cbn [flat_map].
  destruct (In_lookup r o (H o (or_introl eq_refl))) as (ob & Hl). rewrite Hl. cbn [app map].
  rewrite (Hfg o ob (or_introl eq_refl) Hl). f_equal. apply IH; intros; [eapply Hfg; eauto; now right|apply H; now right].
Qed.

Lemma objs_of_length r : forall l, (forall o, In o l -> In o (ids r)) -> length (objs_of r l) = length l.
Proof.
  intros l H. rewrite <- (map_length (fun _ => tt) (objs_of r l)), <- (map_length (fun _ => tt) l).
  f_equal. apply objs_of_map; auto.
Qed.

Lemma filter_perm {A} (f : A -> bool) l1 l2 : Permutation l1 l2 -> Permutation (filter f l1) (filter f l2).
Proof.
  induction 1; cbn [filter].
  - constructor.
  - destruct (f x); [now constructor|assumption].
  - destruct (f x), (f y); try reflexivity. constructor.
  - etransitivity; eauto.
Qed.

Lemma filter_subset {A} (f : A -> bool) l (P : A -> Prop) : (forall x, In x l -> P x) -> forall x, In x (filter f l) -> P x.
Proof. intros H x Hx. apply filter_In in Hx. apply H. tauto. Qed.

(* ---- saturated tree values = saturation of the unbounded metrics ---- *)
Definition sat_tm (m : tmetrics) : tsz :=
  mk_tsz (sat32 (tm_depth m)) (sat32 (tm_len m)) (sat32 (tm_trees m)) (sat32 (tm_blobs m))
         (sat64 (tm_bsize m)) (sat32 (tm_links m)) (sat32 (tm_subs m)).

Lemma apply_entry_sat sub blobs tm bsz acc e :
  blen (e_name e) < cap32 ->
  (entry_kind (e_mode e) = EkTree -> sub (e_oid e) = sat_tm (tm (e_oid e))) ->
  (entry_kind (e_mode e) = EkBlob -> blob_or0 blobs (e_oid e) = bsz (e_oid e) /\ bsz (e_oid e) <= cap32) ->
  apply_entry sub blobs (sat_tm acc) e = sat_tm (tm_add_entry tm bsz acc e).
Proof.
  intros Hn Ht Hb. rewrite apply_entry_eq. unfold tm_add_entry.
  destruct (entry_kind (e_mode e)) eqn:K.
  - rewrite (Ht eq_refl). unfold add_descendent, sat_tm.
    cbn [t_depth t_len t_trees t_blobs t_bsize t_links t_subs tm_depth tm_len tm_trees tm_blobs tm_bsize tm_links tm_subs].
    rewrite !mx_max. unfold sat_add32, sat_add64, add32, u32, u64, sat32, sat64, cap32, cap64, MaxUint32, MaxUint64, two32, two64 in *.
    destruct (0 <? tm_len (tm (e_oid e))) eqn:E1; destruct (0 <? N.min (tm_len (tm (e_oid e))) 4294967295) eqn:E2;
      try lia; f_equal; lia.
  - unfold add_submodule, sat_tm.
    cbn [t_depth t_len t_trees t_blobs t_bsize t_links t_subs tm_depth tm_len tm_trees tm_blobs tm_bsize tm_links tm_subs].
    rewrite !mx_max. unfold sat_add32, u64, sat32, cap32, MaxUint32, two64 in *. f_equal; lia.
  - unfold add_link, sat_tm.
    cbn [t_depth t_len t_trees t_blobs t_bsize t_links t_subs tm_depth tm_len tm_trees tm_blobs tm_bsize tm_links tm_subs].
    rewrite !mx_max. unfold sat_add32, u64, sat32, cap32, MaxUint32, two64 in *. f_equal; lia.
  - destruct (Hb eq_refl) as [-> Hle]. unfold add_blob, sat_tm.
    cbn [t_depth t_len t_trees t_blobs t_bsize t_links t_subs tm_depth tm_len tm_trees tm_blobs tm_bsize tm_links tm_subs].
    rewrite !mx_max. unfold sat_add32, sat_add64, u64, sat32, sat64, cap32, cap64, MaxUint32, MaxUint64, two64 in *. f_equal; lia.
Qed.

Lemma tmetrics_of_cons o1 ob1 r o : o <> o1 -> tmetrics_of ((o1, ob1) :: r) o = tmetrics_of r o.
Proof. intros H. simpl. destruct (N.eqb_spec o o1); [contradiction|reflexivity]. Qed.

Lemma blob_size_in_cons o1 ob1 r o : o <> o1 -> blob_size_in ((o1, ob1) :: r) o = blob_size_in r o.
Proof. intros H. unfold blob_size_in. now rewrite lookup_cons_ne. Qed.

Lemma tmetrics_of_here o1 s es r :
  tmetrics_of ((o1, Tree s es) :: r) o1 = fold_left (tm_add_entry (tmetrics_of r) (blob_size_in r)) es tm_zero.
Proof. simpl. now rewrite N.eqb_refl. Qed.

Lemma fold_tm_ext sub1 sub2 b1 b2 es : forall acc,
  (forall e, In e es -> entry_kind (e_mode e) = EkTree -> sub1 (e_oid e) = sub2 (e_oid e)) ->
  (forall e, In e es -> entry_kind (e_mode e) = EkBlob -> b1 (e_oid e) = b2 (e_oid e)) ->
  fold_left (tm_add_entry sub1 b1) es acc = fold_left (tm_add_entry sub2 b2) es acc.
Proof.
  induction es as [|e es IH]; intros acc H1 H2; [reflexivity|]. cbn [fold_left].
  assert (E : tm_add_entry sub1 b1 acc e = tm_add_entry sub2 b2 acc e).
  { unfold tm_add_entry. destruct (entry_kind (e_mode e)) eqn:K; try reflexivity.
    - rewrite (H1 e (or_introl eq_refl) K). reflexivity.
    - rewrite (H2 e (or_introl eq_refl) K). reflexivity. }
  rewrite E. apply IH; intros e' He' K; [apply H1|apply H2]; auto; now right.
Qed.

Lemma entry_in_older r ob e es s : obj_ok r ob = true -> ob = Tree s es -> In e es ->
  entry_kind (e_mode e) <> EkSub -> In (e_oid e) (ids r).
Proof.
  intros Hok -> He K. eapply obj_ok_refs; [exact Hok|]. cbn [refs_of]. apply in_map. apply filter_In. split; [assumption|].
  unfold is_sub. destruct (entry_kind (e_mode e)); try reflexivity. congruence.
Qed.

Lemma tmetrics_of_tree : forall r0, wf_b r0 = true -> forall t s es, lookup r0 t = Some (Tree s es) ->
  tmetrics_of r0 t = fold_left (tm_add_entry (tmetrics_of r0) (blob_size_in r0)) es tm_zero.
Proof.
  induction r0 as [|[o1 ob1] r0 IH]; intros Hw t s es Hl; [discriminate|].
  apply wf_cons in Hw. destruct Hw as (H1 & H2 & H3). simpl in Hl.
  destruct (N.eqb_spec t o1) as [->|Hne].
  - inversion Hl; subst ob1. rewrite tmetrics_of_here. apply fold_tm_ext; intros e He K.
    + assert (Hi : In (e_oid e) (ids r0)) by (eapply entry_in_older; eauto; congruence).
      rewrite tmetrics_of_cons; [reflexivity|]. intros E. rewrite E in Hi. contradiction.
    + assert (Hi : In (e_oid e) (ids r0)) by (eapply entry_in_older; eauto; congruence).
      rewrite blob_size_in_cons; [reflexivity|]. intros E. rewrite E in Hi. contradiction.
  - rewrite tmetrics_of_cons by assumption. rewrite (IH H3 t s es Hl). apply fold_tm_ext; intros e He K.
    + assert (Hi : In (e_oid e) (ids r0)).
      { pose proof (wf_lookup_ok r0 H3 t _ Hl) as Hok. eapply entry_in_older; eauto; congruence. }
      rewrite tmetrics_of_cons; [reflexivity|]. intros E. rewrite E in Hi. contradiction.
    + assert (Hi : In (e_oid e) (ids r0)).
      { pose proof (wf_lookup_ok r0 H3 t _ Hl) as Hok. eapply entry_in_older; eauto; congruence. }
      rewrite blob_size_in_cons; [reflexivity|]. intros E. rewrite E in Hi. contradiction.
Qed.

(* ---- the guard: sizes and name lengths stay below the 32-bit cap ---- *)
Definition small (r : repo) : Prop :=
  (forall o ob, lookup r o = Some ob -> size_of ob <= cap32) /\
  (forall o s es e, lookup r o = Some (Tree s es) -> In e es -> blen (e_name e) < cap32) /\
  (forall o s t ps, lookup r o = Some (Commit s t ps) -> N.of_nat (length ps) < two64) /\
  (forall o s es, lookup r o = Some (Tree s es) -> N.of_nat (length es) <= cap32).

Lemma dentries_some blobs : forall es,
  (forall e, In e es -> entry_kind (e_mode e) = EkBlob -> blobs (e_oid e) <> None) ->
  exists ds, dentries blobs es = Some ds.
Proof.
  induction es as [|e es IH]; intros H; [simpl; eauto|]. cbn [dentries].
  destruct IH as (ds & ->); [intros; apply H; auto; now right|].
  destruct (entry_kind (e_mode e)) eqn:K; eauto.
  destruct (blobs (e_oid e)) eqn:B; eauto. exfalso. eapply H; eauto. now left.
Qed.

Lemma has_kind_lookup r k o : has_kind r k o = true -> exists ob, lookup r o = Some ob /\ kind_of ob = k.
Proof.
  unfold has_kind, kind_in. destruct (lookup r o) as [ob|]; [|discriminate]. intros H. exists ob. split; [reflexivity|].
  destruct (kind_of ob), k; try discriminate; reflexivity.
Qed.

Lemma has_kind_of r k o ob : lookup r o = Some ob -> has_kind r k o = okind_eqb (kind_of ob) k.
Proof. intros H. unfold has_kind, kind_in. now rewrite H. Qed.

Lemma NoDup_filter {A} (f : A -> bool) l : NoDup l -> NoDup (filter f l).
Proof.
  induction 1 as [|x l Hn Hnd IH]; cbn [filter]; [constructor|]. destruct (f x); [|assumption].
  constructor; [|assumption]. intros H. apply filter_In in H. tauto.
Qed.

Lemma filter_split {A} (f : A -> bool) l pre x post : l = pre ++ x :: post ->
  filter f l = filter f pre ++ (if f x then [x] else []) ++ filter f post.
Proof. intros ->. rewrite filter_app. cbn [filter]. destruct (f x); reflexivity. Qed.

Lemma NoDup_split_unique {A} (l : list A) a x b a' b' : NoDup l -> l = a ++ x :: b -> l = a' ++ x :: b' -> a = a' /\ b = b'.
Proof.
  intros Hnd. revert a a' b b'. induction l as [|y l IH]; intros a a' b b' E1 E2.
  - destruct a; discriminate.
  - inversion Hnd as [|? ? Hny Hnd']; subst.
    destruct a as [|z a], a' as [|z' a']; simpl in *.
    + inversion E1; inversion E2; subst. auto.
    + inversion E1; inversion E2; subst. exfalso. apply Hny. apply in_or_app. right. now left.
    + inversion E1; inversion E2; subst. exfalso. apply Hny. apply in_or_app. right. now left.
    + inversion E1; inversion E2; subst. destruct (IH Hnd' a a' b b' eq_refl H3) as [-> ->]. auto.
Qed.

(* ---- the canonical event list and its aggregate ---- *)
Section Canon.
Variable r : repo.
Variable blobs : fmap N.
Variables bs ts cs gs : list oid.
Variable roots : list root.

Definition bsz32 (o : oid) : N := sat32 (match lookup r o with Some (Blob s) => s | _ => 0 end).
Definition tree_ev' (t : oid) : ev := tree_ev r (t, tsz_of blobs r t).
Definition tag_ev' (g : oid) : ev := tag_ev r (g, GSPEC r g).
Definition ref_ev (rt : root) : ev := EvRef (rt_name rt) (rt_oid rt) (rt_walk rt) (rt_isref rt) (rt_groups rt).

Definition canonical : list ev :=
  map (blob_ev r) bs ++ map tree_ev' ts ++ map (commit_ev r) cs ++ map tag_ev' gs ++ map ref_ev roots.

Ltac seg :=
  rewrite ?fold_left_app, ?fold_map;
  cbn [blob_ev tree_ev' tree_ev tag_ev' tag_ev commit_ev ref_ev fst snd
       g_ncommits g_scommits g_maxcommit g_depth g_maxparents g_ntrees g_strees g_nentries g_maxentries
       g_nblobs g_sblobs g_maxblob g_ntags g_tagdepth g_nrefs g_x];
  rewrite ?fold_const.

Lemma c_ncommits : fold_left g_ncommits canonical 0 = sat32 (N.of_nat (length cs)).
Proof. unfold canonical. seg. rewrite fold_count32 by (unfold cap32, MaxUint32; lia). f_equal. Qed.
Lemma c_scommits : fold_left g_scommits canonical 0 = sat64 (sumN (map (fun c => sat32 (osize r c)) cs)).
Proof.
  unfold canonical. seg. rewrite (fold_sum64 (fun c => sat32 (osize r c))); [f_equal| |].
  - unfold cap64, MaxUint64; lia.
  - intros x _. unfold sat32, cap32, cap64, MaxUint32, MaxUint64. lia.
Qed.
Lemma c_maxcommit : fold_left g_maxcommit canonical 0 = maxN (map (fun c => sat32 (osize r c)) cs).
Proof. unfold canonical. seg. rewrite (fold_mxp (fun c => sat32 (osize r c))). lia. Qed.
Lemma c_depth : fold_left g_depth canonical 0 = maxN (map (fun c => sat32 (cdepth r c)) cs).
Proof. unfold canonical. seg. rewrite (fold_mxp (fun c => sat32 (cdepth r c))). lia. Qed.
Lemma c_maxparents : fold_left g_maxparents canonical 0 = maxN (map (fun c => sat32 (u64 (onparents r c))) cs).
Proof. unfold canonical. seg. rewrite (fold_mxp (fun c => sat32 (u64 (onparents r c)))). lia. Qed.
Lemma c_ntrees : fold_left g_ntrees canonical 0 = sat32 (N.of_nat (length ts)).
Proof. unfold canonical. seg. rewrite fold_count32 by (unfold cap32, MaxUint32; lia). f_equal. Qed.
Lemma c_strees : fold_left g_strees canonical 0 = sat64 (sumN (map (fun t => sat32 (tree_size_of r t)) ts)).
Proof.
  unfold canonical. seg. rewrite (fold_sum64 (fun t => sat32 (tree_size_of r t))); [f_equal| |].
  - unfold cap64, MaxUint64; lia.
  - intros x _. unfold sat32, cap32, cap64, MaxUint32, MaxUint64. lia.
Qed.
Lemma c_nentries : fold_left g_nentries canonical 0 = sat64 (sumN (map (tree_nentries r) ts)).
Proof.
  unfold canonical. seg. rewrite (fold_sum64 (tree_nentries r)); [f_equal| |].
  - unfold cap64, MaxUint64; lia.
  - intros x _. unfold tree_nentries. destruct (lookup r x) as [[]|]; unfold sat32, cap32, cap64, MaxUint32, MaxUint64; lia.
Qed.
Lemma c_maxentries : fold_left g_maxentries canonical 0 = maxN (map (tree_nentries r) ts).
Proof. unfold canonical. seg. rewrite (fold_mx (tree_nentries r)). lia. Qed.
Lemma c_nblobs : fold_left g_nblobs canonical 0 = sat32 (N.of_nat (length bs)).
Proof. unfold canonical. seg. rewrite fold_count32 by (unfold cap32, MaxUint32; lia). f_equal. Qed.
Lemma c_sblobs : fold_left g_sblobs canonical 0 = sat64 (sumN (map bsz32 bs)).
Proof.
  unfold canonical. seg. rewrite (fold_sum64 bsz32); [f_equal| |].
  - unfold cap64, MaxUint64; lia.
  - intros x _. unfold bsz32, sat32, cap32, cap64, MaxUint32, MaxUint64. lia.
Qed.
Lemma c_maxblob : fold_left g_maxblob canonical 0 = maxN (map bsz32 bs).
Proof. unfold canonical. seg. rewrite (fold_mx bsz32). lia. Qed.
Lemma c_ntags : fold_left g_ntags canonical 0 = sat32 (N.of_nat (length gs)).
Proof. unfold canonical. seg. rewrite fold_count32 by (unfold cap32, MaxUint32; lia). f_equal. Qed.
Lemma c_tagdepth : fold_left g_tagdepth canonical 0 = maxN (map (GSPEC r) gs).
Proof. unfold canonical. seg. rewrite (fold_mx (GSPEC r)). lia. Qed.
Lemma c_x f : fold_left (g_x f) canonical 0 = maxN (map (fun t => f (tsz_of blobs r t)) ts).
Proof. unfold canonical. seg. rewrite (fold_mx (fun t => f (tsz_of blobs r t))). lia. Qed.

Lemma c_nrefs : fold_left g_nrefs canonical 0 = sat32 (N.of_nat (length (filter rt_isref roots))).
Proof.
  unfold canonical. seg.
  assert (G : forall l a, a <= cap32 ->
    fold_left (fun a x => match rt_isref x with true => sat_add32 a 1 | false => a end) l a
    = sat32 (a + N.of_nat (length (filter rt_isref l)))).
  { induction l as [|x l IH]; intros a Ha; cbn [fold_left filter].
    - simpl length. rewrite N.add_0_r. symmetry. now apply sat32_id.
    - destruct (rt_isref x).
      + rewrite IH by apply sat32_le. unfold sat_add32. rewrite sat32_add_l. f_equal. simpl length. lia.
      + now apply IH. }
  rewrite G by (unfold cap32, MaxUint32; lia). f_equal.
Qed.

End Canon.

(* ---- the main theorem ---- *)
Lemma sum_only_trees r : forall l, (forall o, In o l -> In o (ids r)) ->
  sumN (map (onentries r) l) = sumN (map (onentries r) (filter (has_kind r KTree) l)).
Proof.
  induction l as [|o l IH]; intros H; [reflexivity|]. cbn [map filter].
  assert (E : forall x l', sumN (x :: l') = x + sumN l') by reflexivity.
  rewrite E, IH by (intros; apply H; now right).
  destruct (In_lookup r o (H o (or_introl eq_refl))) as (ob & Hl). rewrite (has_kind_of r KTree o ob Hl).
  destruct ob; cbn [kind_of okind_eqb]; cbn [map]; rewrite ?E; try reflexivity;
    unfold onentries at 1; rewrite Hl; cbn [nentries]; lia.
Qed.

Lemma map_ext_in2 {A B} (f g : A -> B) l : (forall a, In a l -> f a = g a) -> map f l = map g l.
Proof. apply map_ext_in'. Qed.

Section Main.
Variable r : repo.
Variable enum : list oid.
Variable roots : list root.
Variable names : bool.
Hypothesis Hwf : wf_b r = true.
Hypothesis Hct : contract r (walked roots) enum.
Hypothesis Hsmall : small r.

Let R := reachable r (walked roots).
Let bs := filter (has_kind r KBlob) enum.
Let ts := filter (has_kind r KTree) enum.
Let cs := filter (has_kind r KCommit) enum.
Let gs := filter (has_kind r KTag) enum.

Lemma enum_ids o : In o enum -> In o (ids r).
Proof. intros H. apply (ct_sound _ _ _ Hct) in H. eapply mark_subset; eauto. Qed.

Lemma enum_closed o ob o' : In o enum -> lookup r o = Some ob -> In o' (refs_of ob) -> In o' enum.
Proof.
  intros H Hl Hr. apply (ct_complete _ _ _ Hct). eapply reachable_closed; eauto. now apply (ct_sound _ _ _ Hct).
Qed.

Lemma in_ts t : In t ts <-> In t enum /\ exists s es, lookup r t = Some (Tree s es).
Proof.
  unfold ts. rewrite filter_In. split; intros [H1 H2]; split; auto.
  - destruct (has_kind_lookup _ _ _ H2) as (ob & Hl & Hk). destruct ob; try discriminate. eauto.
  - destruct H2 as (s & es & Hl). now rewrite (has_kind_of r KTree t _ Hl).
Qed.

Lemma in_cs c : In c cs <-> In c enum /\ exists s t ps, lookup r c = Some (Commit s t ps).
Proof.
  unfold cs. rewrite filter_In. split; intros [H1 H2]; split; auto.
  - destruct (has_kind_lookup _ _ _ H2) as (ob & Hl & Hk). destruct ob; try discriminate. eauto.
  - destruct H2 as (s & t & ps & Hl). now rewrite (has_kind_of r KCommit c _ Hl).
Qed.

Lemma in_gs g : In g gs <-> In g enum /\ exists s t k, lookup r g = Some (Tag s t k).
Proof.
  unfold gs. rewrite filter_In. split; intros [H1 H2]; split; auto.
  - destruct (has_kind_lookup _ _ _ H2) as (ob & Hl & Hk). destruct ob; try discriminate. eauto.
  - destruct H2 as (s & t & k & Hl). now rewrite (has_kind_of r KTag g _ Hl).
Qed.

(* kinds of the targets of edges, in the whole history *)
Lemma tree_entry_kinds t s es e : lookup r t = Some (Tree s es) -> In e es ->
  match entry_kind (e_mode e) with
  | EkTree => kind_in r (e_oid e) KTree = true
  | EkSub => True
  | EkLink | EkBlob => kind_in r (e_oid e) KBlob = true
  end.
Proof.
  intros Hl He. pose proof (wf_lookup_ok r Hwf t _ Hl) as Hok. cbn [obj_ok] in Hok.
  rewrite forallb_forall in Hok. specialize (Hok e He). unfold entry_ok in Hok.
  destruct (entry_kind (e_mode e)); auto.
Qed.

Variable blobs : fmap N.
Hypothesis Hblobs : forall o, blobs o = if memb o enum && has_kind r KBlob o
                      then Some (sat32 (match lookup r o with Some (Blob s) => s | _ => 0 end)) else None.

Lemma blob_child_known t s es e : In t enum -> lookup r t = Some (Tree s es) -> In e es ->
  entry_kind (e_mode e) = EkBlob ->
  blobs (e_oid e) = Some (blob_size_in r (e_oid e)) /\ blob_size_in r (e_oid e) <= cap32.
Proof.
  intros Ht Hl He K. pose proof (tree_entry_kinds t s es e Hl He) as Hk. rewrite K in Hk.
  assert (Hin : In (e_oid e) enum).
  { eapply enum_closed; eauto. cbn [refs_of]. apply in_map. apply filter_In. split; [assumption|].
    unfold is_sub. now rewrite K. }
  rewrite Hblobs. apply memb_In in Hin. rewrite Hin. unfold has_kind. rewrite Hk. cbn [andb].
  unfold kind_in in Hk. unfold blob_size_in. destruct (lookup r (e_oid e)) as [[sz| | |]|] eqn:E; try discriminate.
  destruct Hsmall as (Hs & _). specialize (Hs _ _ E). cbn [size_of] in Hs. rewrite sat32_id by assumption. auto.
Qed.

Lemma ts_nodes t : In t ts -> exists ds, TN r blobs t = Some ds.
Proof.
  intros Ht. apply in_ts in Ht. destruct Ht as (Hin & s & es & Hl). unfold TN, tnodes. rewrite Hl.
  apply dentries_some. intros e He K. destruct (blob_child_known t s es e Hin Hl He K) as [-> _]. discriminate.
Qed.

Lemma ts_closed t ds n pl : In t ts -> TN r blobs t = Some ds -> In (Child tcontrib bytes n pl) ds -> In n ts.
Proof.
  intros Ht Hds Hc. apply in_ts in Ht. destruct Ht as (Hin & s & es & Hl).
  unfold TN, tnodes in Hds. rewrite Hl in Hds.
  destruct (dentries_children _ _ _ _ _ Hds Hc) as (e & He & K & <- & _).
  pose proof (tree_entry_kinds t s es e Hl He) as Hk. rewrite K in Hk.
  apply in_ts. split.
  - eapply enum_closed; eauto. eapply tree_entry_ref; eauto.
  - unfold kind_in in Hk. destruct (lookup r (e_oid e)) as [[| s' es' | |]|]; try discriminate. eauto.
Qed.

(* the saturated tree value is the saturation of the unbounded metrics *)
Lemma tspec_sat : forall k t, (rank r t < k)%nat -> In t ts -> tsz_of blobs r t = sat_tm (tmetrics_of r t).
Proof.
  induction k as [|k IH]; intros t Hk Ht; [lia|].
  pose proof Ht as Ht0. apply in_ts in Ht. destruct Ht as (Hin & s & es & Hl).
  rewrite (tsz_of_tree blobs r Hwf t s es Hl), (tmetrics_of_tree r Hwf t s es Hl).
  change ts_init with (sat_tm tm_zero).
  assert (G : forall es' acc, (forall e, In e es' -> In e es) ->
     fold_left (apply_entry (tsz_of blobs r) blobs) es' (sat_tm acc)
     = sat_tm (fold_left (tm_add_entry (tmetrics_of r) (blob_size_in r)) es' acc)).
  { induction es' as [|e es' IHe]; intros acc Hsub; [reflexivity|]. cbn [fold_left].
    rewrite (apply_entry_sat (tsz_of blobs r) blobs (tmetrics_of r) (blob_size_in r) acc e).
    - apply IHe. intros; apply Hsub; now right.
    - destruct Hsmall as (_ & Hn & _). eapply Hn; eauto. apply Hsub. now left.
    - intros K. apply IH.
      + assert (rank r (e_oid e) < rank r t)%nat; [|lia].
        eapply rank_child_lt; eauto. eapply tree_entry_ref; eauto. apply Hsub. now left.
      + destruct (ts_nodes t Ht0) as (ds & Hds).
        pose proof (tree_entry_kinds t s es e Hl (Hsub e (or_introl eq_refl))) as Hk'. rewrite K in Hk'.
        apply in_ts. split.
        * eapply enum_closed; eauto. eapply tree_entry_ref; eauto. apply Hsub. now left.
        * unfold kind_in in Hk'. destruct (lookup r (e_oid e)) as [[| s' es'' | |]|]; try discriminate. eauto.
    - intros K. destruct (blob_child_known t s es e Hin Hl (Hsub e (or_introl eq_refl)) K) as [Hb Hle].
      unfold blob_or0. rewrite Hb. auto. }
  apply G. auto.
Qed.

End Main.

(* ---- the static fuel of the model is sufficient ---- *)
Definition wt (ob : obj) : nat := match ob with Tree _ es => length es | Tag _ _ _ => 1 | _ => 0 end%nat.
Definition wt_of (r : repo) (o : oid) : nat := match lookup r o with Some ob => wt ob | None => 0 end%nat.

Lemma total_entries_eq r : total_entries r = list_sum (map (fun p => wt (snd p)) r).
Proof.
  induction r as [|[o ob] r IH]; [reflexivity|]. cbn [total_entries fold_right map list_sum snd].
  fold (total_entries r). rewrite IH. destruct ob; cbn [wt]; unfold list_sum; lia.
Qed.

Lemma list_sum_filter_split {A} (f : A -> nat) (p : A -> bool) l :
  list_sum (map f l) = (list_sum (map f (filter p l)) + list_sum (map f (filter (fun x => negb (p x)) l)))%nat.
Proof. induction l as [|x l IH]; [reflexivity|]. cbn [map filter]. destruct (p x); cbn [negb map list_sum fold_right]; unfold list_sum in *; lia. Qed.

Lemma sum_wt_le r : wf_b r = true -> forall l, NoDup l -> (forall o, In o l -> In o (ids r)) ->
  (list_sum (map (wt_of r) l) <= total_entries r)%nat.
Proof.
  induction r as [|[o1 ob1] r IH]; intros Hwf l Hnd Hin.
  - destruct l as [|x l]; [simpl; lia|]. exfalso. apply (Hin x). now left.
  - apply wf_cons in Hwf. destruct Hwf as (H1 & H2 & H3).
    rewrite (list_sum_filter_split (wt_of ((o1, ob1) :: r)) (fun o => N.eqb o o1) l).
    assert (Ea : (list_sum (map (wt_of ((o1, ob1) :: r)) (filter (fun o => N.eqb o o1) l)) <= wt ob1)%nat).
    { assert (G : forall l', NoDup l' -> (forall x, In x l' -> x = o1) -> (list_sum (map (wt_of ((o1, ob1) :: r)) l') <= wt ob1)%nat).
      { intros l' Hnd' Hall. destruct l' as [|a [|b l'']]; cbn [map list_sum fold_right].
        - lia.
        - rewrite (Hall a (or_introl eq_refl)). unfold wt_of. cbn [lookup]. rewrite N.eqb_refl. lia.
        - exfalso. inversion Hnd' as [|? ? Hna _]; subst. apply Hna. left.
          rewrite (Hall a (or_introl eq_refl)), (Hall b (or_intror (or_introl eq_refl))). reflexivity. }
      apply G; [now apply NoDup_filter|]. intros x Hx. apply filter_In in Hx. destruct Hx as [_ Hx]. now apply N.eqb_eq in Hx. }
    assert (Eb : (list_sum (map (wt_of ((o1, ob1) :: r)) (filter (fun o => negb (N.eqb o o1)) l)) <= total_entries r)%nat).
    { rewrite (map_ext_in' (wt_of ((o1, ob1) :: r)) (wt_of r)).
      - apply IH; [assumption|now apply NoDup_filter|].
        intros o Ho. apply filter_In in Ho. destruct Ho as [Ho Hne]. apply negb_true_iff, N.eqb_neq in Hne.
        destruct (Hin o Ho) as [E|E]; [simpl in E; congruence|assumption].
      - intros o Ho. apply filter_In in Ho. destruct Ho as [_ Hne]. apply negb_true_iff, N.eqb_neq in Hne.
        unfold wt_of. now rewrite lookup_cons_ne. }
    rewrite total_entries_eq in *. cbn [map snd]. change (list_sum (wt ob1 :: ?l)) with (wt ob1 + list_sum l)%nat.
    cbn [list_sum fold_right]. unfold list_sum in *. apply Nat.add_le_mono; assumption.
Qed.

Lemma dentries_length blobs : forall es ds, dentries blobs es = Some ds -> length ds = length es.
Proof.
  induction es as [|e es IH]; intros ds H; simpl in H; [inversion H; reflexivity|].
  destruct (dentries blobs es) as [ds'|]; [|discriminate].
  destruct (entry_kind (e_mode e)); try (inversion H; subst; simpl; f_equal; now apply IH).
  destruct (blobs (e_oid e)); [|discriminate]. inversion H; subst; simpl; f_equal; now apply IH.
Qed.

Lemma children_length_le {C P} (ds : list (dentry C P)) : (length (children C P ds) <= length ds)%nat.
Proof. unfold children. induction ds as [|d ds IH]; [simpl; lia|]. cbn [flat_map]. rewrite app_length. destruct d; simpl; lia. Qed.

Lemma tnch_le r blobs t : (tnch r blobs t <= wt_of r t)%nat.
Proof.
  unfold tnch, nchildren, TN, tnodes, wt_of. destruct (lookup r t) as [[| s es | |]|]; try lia.
  destruct (dentries blobs es) as [ds|] eqn:E; [|lia]. cbn [wt]. rewrite <- (dentries_length blobs es ds E). apply children_length_le.
Qed.

Lemma gnch_le r g : (gnch r g <= wt_of r g)%nat.
Proof.
  unfold gnch, nchildren, GN, gnodes, wt_of. destruct (lookup r g) as [[| | |s t k]|]; try lia.
  cbn [wt]. destruct k; simpl; lia.
Qed.

Lemma list_sum_le {A} (f g : A -> nat) l : (forall x, f x <= g x)%nat -> (list_sum (map f l) <= list_sum (map g l))%nat.
Proof. intros H. induction l as [|x l IH]; [simpl; lia|]. cbn [map list_sum fold_right]. specialize (H x). unfold list_sum in *. lia. Qed.

Lemma Lsum_empty {V P} ids : Lsum V P ids (empty_st V P) = 0%nat.
Proof. unfold Lsum. induction ids as [|x l IH]; [reflexivity|]. cbn [map list_sum fold_right]. unfold list_sum in IH. rewrite IH. reflexivity. Qed.

Lemma any_rec_false {V P} (s : st V P) l : (forall c, recs _ _ s c = None) -> any_rec s l = false.
Proof. intros H. unfold any_rec. induction l as [|o l IH]; [reflexivity|]. cbn [existsb]. rewrite H, IH. reflexivity. Qed.

Lemma numeric_map_true {A} (f : A -> ev) l : (forall x, numeric (f x) = true) -> filter numeric (map f l) = map f l.
Proof. intros H. induction l as [|x l IH]; [reflexivity|]. cbn [map filter]. now rewrite H, IH. Qed.

Lemma numeric_map_false {A} (f : A -> ev) l : (forall x, numeric (f x) = false) -> filter numeric (map f l) = [].
Proof. intros H. induction l as [|x l IH]; [reflexivity|]. cbn [map filter]. now rewrite H, IH. Qed.

Theorem scan_correct r enum roots names :
  wf_b r = true -> contract r (walked roots) enum -> small r ->
  exists evs, scan r enum roots names = SOk evs /\
              history_of evs = sat_census (spec_census r (walked roots)) (nrefs_of roots).
Proof.
  intros Hwf Hct Hsmall.
  set (bs := filter (has_kind r KBlob) enum). set (ts := filter (has_kind r KTree) enum).
  set (cs := filter (has_kind r KCommit) enum). set (gs := filter (has_kind r KTag) enum).
  assert (Hids : forall o, In o enum -> In o (ids r)) by (intros o; apply (enum_ids r enum roots Hct)).
  unfold scan.
  destruct (phase1_ok r enum (fun _ => None) Hids) as (blobs & Hp1 & Hblobs). rewrite Hp1.
  fold bs ts cs gs.
  (* trees *)
  set (fuel := S (2 * total_entries r)).
  assert (Hnd_ts : NoDup ts) by (apply NoDup_filter, Hct).
  assert (Hts_ids : forall t, In t ts -> In t (ids r)) by (intros t Ht; apply Hids; unfold ts in Ht; apply filter_In in Ht; tauto).
  assert (Hfuel_t : (2 * (TLsum r empty_tst + list_sum (map (tnch r blobs) ts)) <= fuel)%nat).
  { unfold TLsum, empty_tst. rewrite Lsum_empty.
    pose proof (list_sum_le (tnch r blobs) (wt_of r) ts (tnch_le r blobs)).
    pose proof (sum_wt_le r Hwf ts Hnd_ts Hts_ids) as H0. unfold fuel.
    pose proof (Nat.le_trans _ _ _ H H0) as X. revert X.
    generalize (list_sum (map (tnch r blobs) ts)) (total_entries r). intros a b X. lia. }
  pose proof (feed_trees_run r Hwf blobs fuel ts empty_tst (map (blob_ev r) bs) (fun _ => False)
                (empty_inv _ _ _ _ _ _ _ _ _) Hnd_ts (fun _ _ H => H)
                (fun t Ht => ts_nodes r enum roots Hwf Hct Hsmall blobs Hblobs t Ht) Hfuel_t) as HT.
  destruct (feed_trees fuel r blobs ts empty_tst (map (blob_ev r) bs)) as [[tstate ev2]|m|m]; try contradiction.
  destruct HT as (Hrun & tl & Htl & Hev2).
  assert (Hwfn : forall t, In t ts -> wf_node tcontrib bytes (TN r blobs) (ids r) t).
  { intros t Ht. destruct (ts_nodes r enum roots Hwf Hct Hsmall blobs Hblobs t Ht) as (ds & Hds).
    destruct (tnodes_wf_node r Hwf blobs t ds Hds) as [H1 H2]. split; [assumption|]. exists ds. split; assumption. }
  assert (Hclosed : forall t es n pl, In t ts -> TN r blobs t = Some es -> In (Child tcontrib bytes n pl) es -> In n ts).
  { intros t es n pl. apply (ts_closed r enum roots Hwf Hct blobs). }
  destruct (deferred_complete tsz tcontrib bytes tapply tapply_comm ts_init tcontrib_of (TN r blobs) (ids r)
              (ids_nodup r Hwf) (tsz_of blobs r) (fun n es H => tnodes_spec_eq r Hwf blobs n es H)
              (rank r) (fun t es n pl H1 H2 => tnodes_rank r Hwf blobs t es n pl H1 H2)
              fuel ts tstate Hnd_ts Hwfn Hclosed Hrun) as [Htdone Htrecs].
  pose proof (deferred_log tsz tcontrib bytes tapply tapply_comm ts_init tcontrib_of (TN r blobs) (ids r)
              (ids_nodup r Hwf) (tsz_of blobs r) (fun n es H => tnodes_spec_eq r Hwf blobs n es H)
              (rank r) (fun t es n pl H1 H2 => tnodes_rank r Hwf blobs t es n pl H1 H2)
              fuel ts tstate Hnd_ts Hwfn Hclosed Hrun) as Htlog.
  cbn [log empty_tst empty_st app] in Htl. rewrite Htl in Htlog.
  (* commits *)
  assert (Hnd_cs : NoDup cs) by (apply NoDup_filter, Hct).
  destruct (feed_commits_ok r Hwf (done _ _ tstate) (rev cs) (fun _ : N => None) ev2) as (cdone' & Hfc).
  { intros c d H. discriminate. }
  { now apply NoDup_rev. }
  { reflexivity. }
  { intros c Hc. apply in_rev in Hc. apply (in_cs r enum) in Hc. destruct Hc as (Hin & s & t & ps & Hl).
    exists s, t, ps. split; [assumption|].
    assert (Ht : In t ts).
    { apply (in_ts r enum). split; [eapply (enum_closed r enum roots Hwf Hct); eauto; simpl; now left|].
      pose proof (wf_lookup_ok r Hwf c _ Hl) as Hok. cbn [obj_ok] in Hok. apply andb_true_iff in Hok. destruct Hok as [Hk _].
      unfold kind_in in Hk. destruct (lookup r t) as [[| s' es' | |]|]; try discriminate. eauto. }
    rewrite (Htdone t Ht). discriminate. }
  { intros pre c post s t ps Hsplit Hl p Hp. right.
    assert (Hc : In c cs) by (apply in_rev; rewrite Hsplit; apply in_or_app; right; now left).
    apply (in_cs r enum) in Hc. destruct Hc as (Hin & _).
    destruct (in_split _ _ Hin) as (epre & epost & Hes).
    pose proof (ct_order _ _ _ Hct epre c epost s t ps Hes Hl p Hp) as Hpost.
    assert (Hpk : has_kind r KCommit p = true).
    { pose proof (wf_lookup_ok r Hwf c _ Hl) as Hok. cbn [obj_ok] in Hok. apply andb_true_iff in Hok. destruct Hok as [_ Hps].
      rewrite forallb_forall in Hps. apply Hps. exact Hp. }
    assert (Hck : has_kind r KCommit c = true) by (now rewrite (has_kind_of r KCommit c _ Hl)).
    assert (Ecs : cs = filter (has_kind r KCommit) epre ++ c :: filter (has_kind r KCommit) epost).
    { unfold cs. rewrite (filter_split _ _ _ _ _ Hes), Hck. reflexivity. }
    assert (Erev : rev cs = rev (filter (has_kind r KCommit) epost) ++ c :: rev (filter (has_kind r KCommit) epre)).
    { rewrite Ecs, rev_app_distr. cbn [rev]. rewrite <- app_assoc. reflexivity. }
    destruct (NoDup_split_unique (rev cs) _ _ _ _ _ (NoDup_rev Hnd_cs) Hsplit Erev) as [-> _].
    apply -> in_rev. apply filter_In. split; assumption. }
  rewrite Hfc.
  (* tags *)
  set (ev3 := ev2 ++ map (commit_ev r) (rev cs)).
  set (ev4 := if names then ev3 ++ map (fun c => EvCommitTree c (commit_tree r c)) cs else ev3).
  assert (Hnd_gs : NoDup gs) by (apply NoDup_filter, Hct).
  assert (Hgn : forall g, In g gs -> exists ds, GN r g = Some ds).
  { intros g Hg. apply (in_gs r enum) in Hg. destruct Hg as (_ & s & t & k & Hl). unfold GN, gnodes. rewrite Hl. eauto. }
  assert (Hgs_ids : forall t, In t gs -> In t (ids r)) by (intros t Ht; apply Hids; unfold gs in Ht; apply filter_In in Ht; tauto).
  assert (Hfuel_g : (2 * (GLsum r empty_gst + list_sum (map (gnch r) gs)) <= fuel)%nat).
  { unfold GLsum, empty_gst. rewrite Lsum_empty.
    pose proof (list_sum_le (gnch r) (wt_of r) gs (gnch_le r)).
    pose proof (sum_wt_le r Hwf gs Hnd_gs Hgs_ids) as H0. unfold fuel.
    pose proof (Nat.le_trans _ _ _ H H0) as X. revert X.
    generalize (list_sum (map (gnch r) gs)) (total_entries r). intros a b X. lia. }
  pose proof (feed_tags_run r Hwf fuel gs empty_gst ev4 (fun _ => False)
                (empty_inv _ _ _ _ _ _ _ _ _) Hnd_gs (fun _ _ H => H) Hgn Hfuel_g) as HG.
  destruct (feed_tags fuel r gs empty_gst ev4) as [[gstate ev5]|m|m]; try contradiction.
  destruct HG as (Hgrun & gl & Hgl & Hev5).
  assert (Hgwfn : forall g, In g gs -> wf_node N unit (GN r) (ids r) g).
  { intros g Hg. destruct (Hgn g Hg) as (ds & Hds). destruct (gnodes_wf_node r Hwf g ds Hds) as [H1 H2].
    split; [assumption|]. exists ds. split; assumption. }
  assert (Hgclosed : forall t es n pl, In t gs -> GN r t = Some es -> In (Child N unit n pl) es -> In n gs).
  { intros g es n pl Hg Hes Hc. apply (in_gs r enum) in Hg. destruct Hg as (Hin & s & t & k & Hl).
    unfold GN, gnodes in Hes. rewrite Hl in Hes. inversion Hes; subst es.
    destruct k; try (now destruct Hc). destruct Hc as [E|[]]. inversion E; subst.
    apply (in_gs r enum). split; [eapply (enum_closed r enum roots Hwf Hct); eauto; simpl; now left|].
    pose proof (wf_lookup_ok r Hwf g _ Hl) as Hok. cbn [obj_ok] in Hok.
    unfold kind_in in Hok. destruct (lookup r n) as [[| | |s' t' k']|]; try discriminate. eauto. }
  destruct (deferred_complete N N unit tag_apply tag_apply_comm 1 tag_contrib (GN r) (ids r)
              (ids_nodup r Hwf) (GSPEC r) (gnodes_spec_eq r Hwf) (rank r) (gnodes_rank r Hwf)
              fuel gs gstate Hnd_gs Hgwfn Hgclosed Hgrun) as [Hgdone Hgrecs].
  pose proof (deferred_log N N unit tag_apply tag_apply_comm 1 tag_contrib (GN r) (ids r)
              (ids_nodup r Hwf) (GSPEC r) (gnodes_spec_eq r Hwf) (rank r) (gnodes_rank r Hwf)
              fuel gs gstate Hnd_gs Hgwfn Hgclosed Hgrun) as Hglog.
  cbn [log empty_gst empty_st app] in Hgl. rewrite Hgl in Hglog.
  rewrite (any_rec_false tstate (ids r) Htrecs), (any_rec_false gstate (ids r) Hgrecs). cbn [orb].
  eexists. split; [reflexivity|].
  (* the numbers *)
  unfold history_of. rewrite fold_record_numeric.
  assert (Enum : filter numeric (ev5 ++ map (fun rt => EvRef (rt_name rt) (rt_oid rt) (rt_walk rt) (rt_isref rt) (rt_groups rt)) roots)
          = map (blob_ev r) bs ++ map (tree_ev r) (fins tsz bytes tl) ++ map (commit_ev r) (rev cs)
            ++ map (tag_ev r) (fins N unit gl) ++ map ref_ev roots).
  { rewrite filter_app, Hev5. unfold ev4, ev3.
    assert (E4 : filter numeric (if names then (ev2 ++ map (commit_ev r) (rev cs)) ++ map (fun c => EvCommitTree c (commit_tree r c)) cs
                                 else ev2 ++ map (commit_ev r) (rev cs))
                 = filter numeric ev2 ++ map (commit_ev r) (rev cs)).
    { destruct names; rewrite !filter_app, ?(numeric_map_false (fun c => EvCommitTree c (commit_tree r c))), ?app_nil_r by reflexivity;
        rewrite (numeric_map_true (commit_ev r)) by reflexivity; reflexivity. }
    rewrite E4, Hev2. rewrite (numeric_map_true (blob_ev r)) by reflexivity.
    rewrite (numeric_map_true (fun rt => EvRef (rt_name rt) (rt_oid rt) (rt_walk rt) (rt_isref rt) (rt_groups rt))) by reflexivity.
    rewrite <- !app_assoc. reflexivity. }
  rewrite Enum.
  assert (Eperm : Permutation
            (map (blob_ev r) bs ++ map (tree_ev r) (fins tsz bytes tl) ++ map (commit_ev r) (rev cs)
               ++ map (tag_ev r) (fins N unit gl) ++ map ref_ev roots)
            (canonical r blobs bs ts cs gs roots)).
  { unfold canonical. apply Permutation_app_head. apply Permutation_app.
    - unfold tree_ev'. rewrite <- (map_map (fun t => (t, tsz_of blobs r t)) (tree_ev r)). apply Permutation_map. exact Htlog.
    - apply Permutation_app; [apply Permutation_map; symmetry; apply Permutation_rev|].
      apply Permutation_app_tail. unfold tag_ev'.
      rewrite <- (map_map (fun g => (g, GSPEC r g)) (tag_ev r)). apply Permutation_map. exact Hglog. }
  rewrite (fold_record_perm _ _ Eperm).
  apply hist_ext. rewrite fold_record_fields.
  change (hist_fields hist0) with [0; 0; 0; 0; 0; 0; 0; 0; 0; 0; 0; 0; 0; 0; 0; 0; 0; 0; 0; 0; 0; 0].
  rewrite fold_step_fields.
  rewrite c_ncommits, c_scommits, c_maxcommit, c_depth, c_maxparents, c_ntrees, c_strees, c_nentries, c_maxentries,
    c_nblobs, c_sblobs, c_maxblob, c_ntags, c_tagdepth, c_nrefs, !c_x.
  (* now the specification side *)
  pose proof (contract_perm r (walked roots) enum Hwf Hct) as HP.
  set (R := reachable r (walked roots)) in *.
  assert (HR : forall o, In o R -> In o (ids r)) by (intros o Ho; eapply mark_subset; eauto).
  assert (Pk : forall k, Permutation (filter (has_kind r k) enum) (filter (has_kind r k) R)) by (intros; now apply filter_perm).
  assert (Lcount : forall k, count_kind k (objs_of r R) = N.of_nat (length (filter (has_kind r k) enum))).
  { intros k. unfold count_kind. rewrite objs_of_filter by assumption.
    rewrite objs_of_length by (apply filter_subset; assumption). f_equal. symmetry. apply Permutation_length, Pk. }
  assert (Lmap : forall (f : obj -> N) (g : oid -> N) k, (forall o ob, lookup r o = Some ob -> f ob = g o) ->
            Permutation (map f (filter (fun ob => okind_eqb (kind_of ob) k) (objs_of r R))) (map g (filter (has_kind r k) enum))).
  { intros f g k Hfg. rewrite objs_of_filter by assumption.
    rewrite (objs_of_map f g r) by (try (apply filter_subset; assumption); intros; eapply Hfg; eauto).
    apply Permutation_map. symmetry. apply Pk. }
  destruct Hsmall as (Hs1 & Hs2 & Hs3 & Hs4).
  assert (Hosz : forall o, sat32 (osize r o) = osize r o).
  { intros o. apply sat32_id. unfold osize. destruct (lookup r o) as [ob|] eqn:E; [eapply Hs1; eauto|unfold cap32, MaxUint32; lia]. }
  unfold sat_census, spec_census, hist_fields.
  cbn [h_ncommits h_scommits h_maxcommit h_depth h_maxparents h_ntrees h_strees h_nentries h_maxentries
       h_nblobs h_sblobs h_maxblob h_ntags h_tagdepth h_nrefs h_xdepth h_xlen h_xtrees h_xblobs h_xbsize h_xlinks h_xsubs
       n_commits s_commits max_commit max_parents hist_depth n_trees s_trees n_entries max_entries n_blobs s_blobs max_blob
       n_tags tag_depth x_depth x_len x_trees x_blobs x_bsize x_links x_subs].
  fold R.
  unfold nrefs_of.
  repeat (apply (f_equal2 (@cons N))); try reflexivity.
  - (* commit count *) now rewrite Lcount.
  - (* commit size *) f_equal. unfold size_kind. rewrite (sumN_perm _ _ (Lmap size_of (osize r) KCommit ltac:(intros o ob H; unfold osize; now rewrite H))).
    f_equal. apply map_ext. intros; apply Hosz.
  - (* max commit *) unfold max_over. rewrite (maxN_perm _ _ (Lmap size_of (osize r) KCommit ltac:(intros o ob H; unfold osize; now rewrite H))).
    rewrite <- maxN_sat32, map_map. reflexivity.
  - (* depth *) rewrite <- maxN_sat32, map_map. apply maxN_perm. apply Permutation_map. apply Pk.
  - (* parents *) unfold max_over. rewrite (maxN_perm _ _ (Lmap nparents (onparents r) KCommit ltac:(intros o ob H; unfold onparents; now rewrite H))).
    rewrite <- maxN_sat32, map_map. f_equal. apply map_ext_in2. intros c Hc. f_equal. apply u64_id.
    apply (in_cs r enum) in Hc. destruct Hc as (_ & s & t & ps & Hl). unfold onparents. rewrite Hl. cbn [nparents]. unfold in64. eapply Hs3; eauto.
  - (* tree count *) now rewrite Lcount.
  - (* tree size *) f_equal. unfold size_kind. rewrite (sumN_perm _ _ (Lmap size_of (osize r) KTree ltac:(intros o ob H; unfold osize; now rewrite H))).
    f_equal. apply map_ext_in2. intros t Ht. apply (in_ts r enum) in Ht. destruct Ht as (_ & s & es & Hl).
    unfold tree_size_of, osize. rewrite Hl. cbn [size_of]. apply sat32_id. apply (Hs1 _ _ Hl).
  - (* entries *) f_equal.
    assert (E : sumN (map nentries (objs_of r R)) = sumN (map (onentries r) R)).
    { f_equal. apply objs_of_map; [|assumption]. intros o ob _ H. unfold onentries. now rewrite H. }
    rewrite E, (sum_only_trees r R HR). rewrite <- (sumN_perm _ _ (Permutation_map (onentries r) (Pk KTree))).
    f_equal. apply map_ext_in2. intros t Ht. apply (in_ts r enum) in Ht. destruct Ht as (_ & s & es & Hl).
    unfold tree_nentries, onentries. rewrite Hl. cbn [nentries]. apply sat32_id. eapply Hs4; eauto.
  - (* max entries *) unfold max_over. rewrite (maxN_perm _ _ (Lmap nentries (onentries r) KTree ltac:(intros o ob H; unfold onentries; now rewrite H))).
    rewrite <- maxN_sat32, map_map. f_equal. apply map_ext_in2. intros t Ht. apply (in_ts r enum) in Ht. destruct Ht as (_ & s & es & Hl).
    unfold tree_nentries, onentries. rewrite Hl. reflexivity.
  - (* blob count *) now rewrite Lcount.
  - (* blob size *) f_equal. unfold size_kind. rewrite (sumN_perm _ _ (Lmap size_of (osize r) KBlob ltac:(intros o ob H; unfold osize; now rewrite H))).
    f_equal. apply map_ext_in2. intros b Hb. unfold bs in Hb. apply filter_In in Hb. destruct Hb as [_ Hb].
    destruct (has_kind_lookup _ _ _ Hb) as (ob & Hl & Hk). destruct ob; try discriminate.
    unfold bsz32, osize. rewrite Hl. cbn [size_of]. apply sat32_id. apply (Hs1 _ _ Hl).
  - (* max blob *) unfold max_over. rewrite (maxN_perm _ _ (Lmap size_of (osize r) KBlob ltac:(intros o ob H; unfold osize; now rewrite H))).
    rewrite <- maxN_sat32, map_map. f_equal. apply map_ext_in2. intros b Hb. unfold bs in Hb. apply filter_In in Hb. destruct Hb as [_ Hb].
    destruct (has_kind_lookup _ _ _ Hb) as (ob & Hl & Hk). destruct ob; try discriminate.
    unfold bsz32, osize. rewrite Hl. reflexivity.
  - (* tag count *) now rewrite Lcount.
  - (* tag depth *) unfold GSPEC. rewrite <- maxN_sat32, map_map. apply maxN_perm. apply Permutation_map. apply Pk.
  - (* x_depth *) rewrite <- maxN_sat32, !map_map. rewrite <- (maxN_perm _ _ (Permutation_map _ (Pk KTree))).
    f_equal. apply map_ext_in2. intros t Ht.
    rewrite (tspec_sat r enum roots Hwf Hct (conj Hs1 (conj Hs2 (conj Hs3 Hs4))) blobs Hblobs (S (rank r t)) t (Nat.lt_succ_diag_r _) Ht). reflexivity.
  - rewrite <- maxN_sat32, !map_map. rewrite <- (maxN_perm _ _ (Permutation_map _ (Pk KTree))).
    f_equal. apply map_ext_in2. intros t Ht.
    rewrite (tspec_sat r enum roots Hwf Hct (conj Hs1 (conj Hs2 (conj Hs3 Hs4))) blobs Hblobs (S (rank r t)) t (Nat.lt_succ_diag_r _) Ht). reflexivity.
  - rewrite <- maxN_sat32, !map_map. rewrite <- (maxN_perm _ _ (Permutation_map _ (Pk KTree))).
    f_equal. apply map_ext_in2. intros t Ht.
    rewrite (tspec_sat r enum roots Hwf Hct (conj Hs1 (conj Hs2 (conj Hs3 Hs4))) blobs Hblobs (S (rank r t)) t (Nat.lt_succ_diag_r _) Ht). reflexivity.
  - rewrite <- maxN_sat32, !map_map. rewrite <- (maxN_perm _ _ (Permutation_map _ (Pk KTree))).
    f_equal. apply map_ext_in2. intros t Ht.
    rewrite (tspec_sat r enum roots Hwf Hct (conj Hs1 (conj Hs2 (conj Hs3 Hs4))) blobs Hblobs (S (rank r t)) t (Nat.lt_succ_diag_r _) Ht). reflexivity.
  - rewrite <- maxN_sat64, !map_map. rewrite <- (maxN_perm _ _ (Permutation_map _ (Pk KTree))).
    f_equal. apply map_ext_in2. intros t Ht.
    rewrite (tspec_sat r enum roots Hwf Hct (conj Hs1 (conj Hs2 (conj Hs3 Hs4))) blobs Hblobs (S (rank r t)) t (Nat.lt_succ_diag_r _) Ht). reflexivity.
  - rewrite <- maxN_sat32, !map_map. rewrite <- (maxN_perm _ _ (Permutation_map _ (Pk KTree))).
    f_equal. apply map_ext_in2. intros t Ht.
    rewrite (tspec_sat r enum roots Hwf Hct (conj Hs1 (conj Hs2 (conj Hs3 Hs4))) blobs Hblobs (S (rank r t)) t (Nat.lt_succ_diag_r _) Ht). reflexivity.
  - rewrite <- maxN_sat32, !map_map. rewrite <- (maxN_perm _ _ (Permutation_map _ (Pk KTree))).
    f_equal. apply map_ext_in2. intros t Ht.
    rewrite (tspec_sat r enum roots Hwf Hct (conj Hs1 (conj Hs2 (conj Hs3 Hs4))) blobs Hblobs (S (rank r t)) t (Nat.lt_succ_diag_r _) Ht). reflexivity.
Qed.

(* ---- projections used by the property files ---- *)
Lemma census_exact r enum roots names :
  wf_b r = true -> contract r (walked roots) enum -> small r ->
  exists evs, scan r enum roots names = SOk evs /\
      let h := history_of evs in
      let c := spec_census r (walked roots) in
      h_ncommits h = sat32 (n_commits c) /\ h_scommits h = sat64 (s_commits c) /\
      h_ntrees h = sat32 (n_trees c) /\ h_strees h = sat64 (s_trees c) /\ h_nentries h = sat64 (n_entries c) /\
      h_nblobs h = sat32 (n_blobs c) /\ h_sblobs h = sat64 (s_blobs c) /\
      h_ntags h = sat32 (n_tags c).
Proof.
  intros H1 H2 H3. destruct (scan_correct r enum roots names H1 H2 H3) as (evs & E & H).
  exists evs. split; [exact E|]. cbv zeta. rewrite H. repeat split; reflexivity.
Qed.

Lemma spec_census_reachable r roots1 roots2 :
  reachable r roots1 = reachable r roots2 -> spec_census r roots1 = spec_census r roots2.
Proof. intros H. unfold spec_census. rewrite H. reflexivity. Qed.

Lemma maxima_exact r enum roots names :
  wf_b r = true -> contract r (walked roots) enum -> small r ->
  exists evs, scan r enum roots names = SOk evs /\
      let h := history_of evs in
      let c := spec_census r (walked roots) in
      h_maxcommit h = sat32 (max_commit c) /\ h_maxparents h = sat32 (max_parents c) /\
      h_maxentries h = sat32 (max_entries c) /\ h_maxblob h = sat32 (max_blob c).
Proof.
  intros H1 H2 H3. destruct (scan_correct r enum roots names H1 H2 H3) as (evs & E & H).
  exists evs. split; [exact E|]. cbv zeta. rewrite H. repeat split; reflexivity.
Qed.

Lemma depths_exact r enum roots names :
  wf_b r = true -> contract r (walked roots) enum -> small r ->
  exists evs, scan r enum roots names = SOk evs /\
      let h := history_of evs in
      let c := spec_census r (walked roots) in
      h_depth h = sat32 (hist_depth c) /\ h_tagdepth h = sat32 (tag_depth c).
Proof.
  intros H1 H2 H3. destruct (scan_correct r enum roots names H1 H2 H3) as (evs & E & H).
  exists evs. split; [exact E|]. cbv zeta. rewrite H. repeat split; reflexivity.
Qed.

Lemma checkout_exact r enum roots names :
  wf_b r = true -> contract r (walked roots) enum -> small r ->
  exists evs, scan r enum roots names = SOk evs /\
      let h := history_of evs in
      let c := spec_census r (walked roots) in
      h_xdepth h = sat32 (x_depth c) /\ h_xlen h = sat32 (x_len c) /\ h_xtrees h = sat32 (x_trees c) /\
      h_xblobs h = sat32 (x_blobs c) /\ h_xbsize h = sat64 (x_bsize c) /\ h_xlinks h = sat32 (x_links c) /\
      h_xsubs h = sat32 (x_subs c).
Proof.
  intros H1 H2 H3. destruct (scan_correct r enum roots names H1 H2 H3) as (evs & E & H).
  exists evs. split; [exact E|]. cbv zeta. rewrite H. repeat split; reflexivity.
Qed.

(* two enumerations of the same graph that both satisfy the contract, and two
   orders of the same roots, give the same numbers *)
Lemma order_independent r enum1 enum2 roots1 roots2 names1 names2 :
  wf_b r = true -> small r ->
  contract r (walked roots1) enum1 -> contract r (walked roots2) enum2 ->
  reachable r (walked roots1) = reachable r (walked roots2) -> nrefs_of roots1 = nrefs_of roots2 ->
  exists e1 e2, scan r enum1 roots1 names1 = SOk e1 /\ scan r enum2 roots2 names2 = SOk e2 /\
                history_of e1 = history_of e2.
Proof.
  intros Hwf Hs C1 C2 HR Hn.
  destruct (scan_correct r enum1 roots1 names1 Hwf C1 Hs) as (e1 & E1 & H1).
  destruct (scan_correct r enum2 roots2 names2 Hwf C2 Hs) as (e2 & E2 & H2).
  exists e1, e2. split; [exact E1|]. split; [exact E2|].
  rewrite H1, H2, Hn, (spec_census_reachable r _ _ HR). reflexivity.
Qed.

Lemma narrow_then_wide_refuted :
  exists r enum roots, wf_b r = true /\ contract_b r (walked roots) enum = true /\
    match scan r enum roots true with
    | SOk evs => h_sblobs (history_of evs) <> sat64 (s_blobs (spec_census r (walked roots)))
    | _ => False
    end.
Proof.
  exists [(1, Blob 4294967297)], [1], [mk_root [114] 1 true true []].
  split; [reflexivity|]. split; [reflexivity|]. vm_compute. intros H. discriminate H.
Qed.

(* ---- progress: the number of Inc() calls of each phase is the census count ----
   blobs: one Inc per blob of the enumeration; trees / commits / tags: one per
   element of the lists built in phase 1; "Matching commits to trees": one per
   commit; references: one per root (references and explicit ROOTs). *)
Lemma phase_counts r enum roots k :
  wf_b r = true -> contract r (walked roots) enum ->
  N.of_nat (length (filter (has_kind r k) enum)) = count_kind k (objs_of r (reachable r (walked roots))).
Proof.
  intros Hwf Hct. pose proof (contract_perm r (walked roots) enum Hwf Hct) as HP.
  set (R := reachable r (walked roots)) in *.
  assert (HR : forall o, In o R -> In o (ids r)) by (intros o Ho; eapply mark_subset; eauto).
  unfold count_kind. rewrite objs_of_filter by assumption.
  rewrite objs_of_length by (apply filter_subset; assumption). f_equal. apply Permutation_length. now apply filter_perm.
Qed.
