(* Float64.v — IEEE-754 binary64 arithmetic on positive rationals, in pure Z.
   Only what git-sizer uses: conversion of an unsigned integer, division of two
   positive floats, comparison, truncation to int, and the decimal digits that
   fmt's %.Nf prints.  A positive float is a pair (m, e) denoting m * 2^e with
   2^52 <= m <= 2^53 (m = 2^53 arises when rounding carries; the value is what
   matters).  Zero is (0, 0).  Only the normal range is reachable: every float
   that occurs is an integer below 2^64, a constant between 1 and 10^16, or a
   quotient of two such numbers. *)
From Coq Require Import ZArith Lia Bool List.
Import ListNotations.
Open Scope Z_scope.

(* round-half-even of a / b, for a >= 0, b > 0 *)
Definition rhe (a b : Z) : Z :=
  let q := a / b in
  let r := a mod b in
  if 2 * r <? b then q
  else if b <? 2 * r then q + 1
  else if Z.even q then q else q + 1.

Lemma rhe_close a b : 0 < b -> 2 * a - b <= 2 * b * (rhe a b) <= 2 * a + b.
Proof.
  intros Hb. unfold rhe.
  pose proof (Z.div_mod a b ltac:(lia)) as E. pose proof (Z.mod_pos_bound a b Hb) as B.
  set (q := a / b) in *. set (r := a mod b) in *.
  destruct (2 * r <? b) eqn:E1; [apply Z.ltb_lt in E1; nia|apply Z.ltb_ge in E1].
  destruct (b <? 2 * r) eqn:E2; [apply Z.ltb_lt in E2; nia|apply Z.ltb_ge in E2].
  destruct (Z.even q); nia.
Qed.

Lemma rhe_int k b : 0 < b -> rhe (k * b) b = k.
Proof.
  intros Hb. unfold rhe. rewrite Z.div_mul, Z.mod_mul by lia.
  destruct (2 * 0 <? b) eqn:E; auto. apply Z.ltb_ge in E. lia.
Qed.

Lemma rhe_tie a b l : 0 < b -> 2 * a = b * (2 * l + 1) -> rhe a b = if Z.even l then l else l + 1.
Proof.
  intros Hb T. unfold rhe.
  pose proof (Z.div_mod a b ltac:(lia)) as E. pose proof (Z.mod_pos_bound a b Hb) as B.
  assert (Q : a / b = l) by nia. assert (R : 2 * (a mod b) = b) by nia.
  rewrite Q.
  replace (2 * (a mod b) <? b) with false by (symmetry; apply Z.ltb_ge; lia).
  replace (b <? 2 * (a mod b)) with false by (symmetry; apply Z.ltb_ge; lia).
  reflexivity.
Qed.

Lemma rhe_mono a b c d : 0 < b -> 0 < d -> a * d <= c * b -> rhe a b <= rhe c d.
Proof.
  intros Hb Hd Hle.
  destruct (Z_le_gt_dec (rhe a b) (rhe c d)) as [|Hgt]; auto. exfalso.
  pose proof (rhe_close a b Hb) as A. pose proof (rhe_close c d Hd) as B.
  remember (rhe a b) as k eqn:Ek. remember (rhe c d) as l eqn:El.
  assert (H1 : 2 * b * k * d <= (2 * a + b) * d) by (apply Z.mul_le_mono_nonneg_r; lia).
  assert (H2 : (2 * c - d) * b <= 2 * d * l * b) by (apply Z.mul_le_mono_nonneg_r; lia).
  assert (H3 : b * d * (2 * k) <= b * d * (2 * l + 2)) by nia.
  assert (Hbd : 0 < b * d) by nia.
  assert (K : k = l + 1) by (apply Z.mul_le_mono_pos_l in H3; lia).
  assert (T1 : 2 * a * d = b * d * (2 * l + 1)) by nia.
  assert (T2 : 2 * c * b = b * d * (2 * l + 1)) by nia.
  assert (T1' : 2 * a = b * (2 * l + 1)) by nia.
  assert (T2' : 2 * c = d * (2 * l + 1)) by nia.
  rewrite (rhe_tie a b l Hb T1') in Ek. rewrite (rhe_tie c d l Hd T2') in El.
  destruct (Z.even l); lia.
Qed.

Lemma rhe_nonneg a b : 0 <= a -> 0 < b -> 0 <= rhe a b.
Proof.
  intros Ha Hb. pose proof (rhe_close a b Hb) as H.
  destruct (Z_le_gt_dec 0 (rhe a b)); auto. nia.
Qed.

Definition float := (Z * Z)%type.

Definition p52 : Z := 4503599627370496.      (* 2^52 *)
Definition p53 : Z := 9007199254740992.      (* 2^53 *)

(* the float nearest to the positive rational a / b (ties to even) *)
Definition rne53 (a b : Z) : float :=
  if a <=? 0 then (0, 0) else
  let e0 := Z.log2 a - Z.log2 b - 52 in
  (* is a / (b * 2^e0) >= 2^52 ? *)
  let ge := if 0 <=? e0 then (b * 2 ^ e0 * p52 <=? a) else (b * p52 <=? a * 2 ^ (- e0)) in
  let e := if ge then e0 else e0 - 1 in
  let m := if 0 <=? e then rhe a (b * 2 ^ e) else rhe (a * 2 ^ (- e)) b in
  (m, e).

(* float64(n) for an unsigned integer n *)
Definition f64_of_Z (n : Z) : float := rne53 n 1.

(* numerator / denominator of the exact value of a float *)
Definition fnum (x : float) : Z := let '(m, e) := x in if 0 <=? e then m * 2 ^ e else m.
Definition fden (x : float) : Z := let '(m, e) := x in if 0 <=? e then 1 else 2 ^ (- e).

(* x / y, correctly rounded *)
Definition fdiv (x y : float) : float := rne53 (fnum x * fden y) (fden x * fnum y).

(* exact comparisons *)
Definition flt (x y : float) : bool := fnum x * fden y <? fnum y * fden x.
Definition fle (x y : float) : bool := fnum x * fden y <=? fnum y * fden x.

(* int(x): truncation toward zero *)
Definition ftrunc (x : float) : Z := fnum x / fden x.

(* The integer D such that fmt.Sprintf("%.pf", x) prints D / 10^p:
   the exact binary value is rounded half-even to p decimals. *)
Definition fixed_digits (x : float) (p : Z) : Z := rhe (fnum x * 10 ^ p) (fden x).
