(* RefOptsProofs.v — properties of the reference-selection model (C06, C07). *)
From Coq Require Import String.
From GS Require Import GoSem Text RefOpts.
From GSGen Require Import RefFilterGen.
Open Scope N_scope.

(* ---- last-matching-rule semantics of the option fold ---- *)
Definition omatch (top : gtree) (o : ropt) (r : bytes) : bool := eval_t top (ro_pat o) r.

(* polarity of the last option (in command-line order) whose pattern matches *)
Fixpoint last_match (top : gtree) (opts : list ropt) (r : bytes) (acc : option bool) : option bool :=
  match opts with
  | [] => acc
  | o :: opts' => last_match top opts' r (if omatch top o r then Some (ro_include o) else acc)
  end.

Definition sel_spec (top : gtree) (opts : list ropt) (default_all : bool) (r : bytes) : bool :=
  match opts with
  | [] => default_all
  | o1 :: _ =>
      match last_match top opts r None with
      | Some pol => pol
      | None => negb (ro_include o1)
      end
  end.

Lemma last_match_acc top r : forall opts acc,
  last_match top opts r acc = match last_match top opts r None with Some p => Some p | None => acc end.
Proof.
  induction opts as [|o opts IH]; intros acc; cbn [last_match]; [reflexivity|].
  destruct (omatch top o r).
  - rewrite (IH (Some (ro_include o))). destruct (last_match top opts r None); reflexivity.
  - apply IH.
Qed.

Lemma fold_opts_some top r : forall opts f,
  match fold_left apply_ropt opts (Some f) with
  | Some g => eval_t top g r = match last_match top opts r None with Some pol => pol | None => eval_t top f r end
  | None => False
  end.
Proof.
  induction opts as [|o opts IH]; intros f; cbn [fold_left last_match]; [reflexivity|].
  unfold apply_ropt at 2. specialize (IH (if ro_include o then include_t (Some f) (ro_pat o) else exclude_t (Some f) (ro_pat o))).
  destruct (fold_left apply_ropt opts _) as [g|]; [|exact IH]. rewrite IH. clear IH.
  unfold omatch.
  pose proof (last_match_acc top r opts) as G.
  destruct (eval_t top (ro_pat o) r) eqn:E.
  - rewrite (G (Some (ro_include o))). destruct (last_match top opts r None); [reflexivity|].
    destruct (ro_include o); cbn [include_t exclude_t eval_t]; rewrite E; cbn; [apply orb_true_r|apply andb_false_r].
  - destruct (last_match top opts r None); [reflexivity|].
    destruct (ro_include o); cbn [include_t exclude_t eval_t]; rewrite E; cbn; [apply orb_false_r|apply andb_true_r].
Qed.

Theorem last_match_rule top opts default_all r :
  eval_t top (top_filter opts default_all) r = sel_spec top opts default_all r.
Proof.
  unfold top_filter, sel_spec. destruct opts as [|o1 opts].
  - cbn [fold_left]. destruct default_all; reflexivity.
  - cbn [fold_left]. unfold apply_ropt at 2.
    pose proof (fold_opts_some top r opts (if ro_include o1 then include_t None (ro_pat o1) else exclude_t None (ro_pat o1))) as H.
    destruct (fold_left apply_ropt opts _) as [g|]; [|destruct H]. rewrite H. clear H.
    cbn [last_match]. unfold omatch.
    pose proof (last_match_acc top r opts) as G.
    destruct (eval_t top (ro_pat o1) r) eqn:E.
    + rewrite (G (Some (ro_include o1))). destruct (last_match top opts r None); [reflexivity|].
      destruct (ro_include o1); cbn [include_t exclude_t eval_t]; rewrite E; reflexivity.
    + destruct (last_match top opts r None); [reflexivity|].
      destruct (ro_include o1); cbn [include_t exclude_t eval_t]; rewrite E; reflexivity.
Qed.

(* ---- the prefix rule ---- *)
Lemma nth_error_app_len {A} (l1 l2 : list A) : nth_error (l1 ++ l2) (length l1) = nth_error l2 0.
Proof. induction l1; simpl; auto. Qed.

Theorem prefix_rule p r : p <> [] ->
  (prefix_match p r = true <->
   (exists s, r = p ++ s) /\ ((exists q, p = q ++ [47]) \/ r = p \/ exists s, r = p ++ 47 :: s)).
Proof.
  intros Hp. unfold prefix_match. destruct p as [|c p']; [congruence|]. set (p := c :: p') in *.
  destruct (has_suffix p [47]) eqn:Es.
  - apply has_suffix_spec in Es. rewrite has_prefix_spec. split; [intros H; split; [exact H|left; exact Es]|tauto].
  - assert (Hns : ~ exists q, p = q ++ [47]) by (intros H; apply has_suffix_spec in H; congruence).
    rewrite andb_true_iff, has_prefix_spec. split.
    + intros [[s Hs] H2]. split; [eauto|]. right. subst r. rewrite app_length in H2.
      apply orb_true_iff in H2. destruct H2 as [H2|H2].
      * apply Nat.eqb_eq in H2. assert (s = []) by (destruct s; [reflexivity|simpl in H2; lia]). subst. left. now rewrite app_nil_r.
      * rewrite nth_error_app_len in H2. destruct s as [|x s]; [discriminate|]. simpl in H2. apply N.eqb_eq in H2. subst. right. eauto.
    + intros [[s Hs] [H|[H|[s' H]]]]; [contradiction| |].
      * split; [eauto|]. rewrite H. apply orb_true_iff. left. apply Nat.eqb_eq. reflexivity.
      * split; [eauto|]. rewrite H, nth_error_app_len. cbn [nth_error]. rewrite N.eqb_refl. apply orb_true_r.
Qed.

(* tie T: the function generated from git/ref_filter.go:prefixFilter.Filter *)
Lemma blen_eqb a b : (blen a =? blen b) = (length a =? length b)%nat.
Proof. unfold blen. destruct (Nat.eqb_spec (length a) (length b)) as [E|E]; [rewrite E; apply N.eqb_refl|apply N.eqb_neq; lia]. Qed.

Theorem prefix_filter_bridge p r : p <> [] ->
  prefixFilter_Filter (mk_prefixFilter p) r = Some (prefix_match p r).
Proof.
  intros Hp. unfold prefixFilter_Filter, prefix_match. cbn [prefixFilter_prefix].
  destruct p as [|c p']; [congruence|]. set (p := c :: p') in *.
  destruct (has_suffix p [47]); [reflexivity|]. cbn [obind].
  destruct (has_prefix r p) eqn:Hpre; cbn [andb]; [|reflexivity].
  rewrite blen_eqb. destruct (length r =? length p)%nat eqn:El; cbn [orb]; [reflexivity|].
  unfold bidx, blen. rewrite Nat2N.id. destruct (nth_error r (length p)) as [x|] eqn:En; cbn [obind].
  - reflexivity.
  - apply has_prefix_spec in Hpre. destruct Hpre as (s & ->). rewrite nth_error_app_len in En.
    destruct s as [|y s]; [|discriminate]. rewrite app_nil_r in El. rewrite Nat.eqb_refl in El. discriminate.
Qed.

(* ---- regexps: the anchored search is a whole-name match ---- *)
Lemma nodupn_In x l : In x (nodupn l) <-> In x l.
Proof.
  induction l as [|y l IH]; [tauto|]. cbn [nodupn]. destruct (existsb (Nat.eqb y) l) eqn:E.
  - rewrite IH. split; [now right|]. intros [<-|H]; [|assumption].
    apply existsb_exists in E. destruct E as (z & Hz & Ez). apply Nat.eqb_eq in Ez. now subst.
  - cbn [In]. rewrite IH. tauto.
Qed.

(* ---- the matcher reads the subject as UTF-8, one code point at a time, and only moves forward inside the subject ---- *)
Lemma rune_at_width s i r w : rune_at s i = Some (r, w) -> (1 <= w <= 4)%nat /\ (i + w <= length s)%nat.
Proof.
  unfold rune_at. intros H.
  destruct (nth_error s i) as [b0|] eqn:E0; [|discriminate].
  assert (L0 : (i < length s)%nat) by (apply nth_error_Some; congruence).
  destruct (b0 <? 128); [inversion H; subst; lia|].
  destruct (nth_error s (S i)) as [b1|] eqn:E1; [|inversion H; subst; lia].
  assert (L1 : (S i < length s)%nat) by (apply nth_error_Some; congruence).
  destruct ((194 <=? b0) && (b0 <=? 223)).
  { destruct (cont_byte b1); inversion H; subst; lia. }
  cbv zeta in H.
  match type of H with (if negb ?c then _ else _) = _ => destruct (negb c) end; [inversion H; subst; lia|].
  destruct (nth_error s (S (S i))) as [b2|] eqn:E2; [|inversion H; subst; lia].
  assert (L2 : (S (S i) < length s)%nat) by (apply nth_error_Some; congruence).
  destruct (negb (cont_byte b2)); [inversion H; subst; lia|].
  destruct ((224 <=? b0) && (b0 <=? 239)); [inversion H; subst; lia|].
  destruct ((240 <=? b0) && (b0 <=? 244)); [|inversion H; subst; lia].
  destruct (nth_error s (S (S (S i)))) as [b3|] eqn:E3; [|inversion H; subst; lia].
  assert (L3 : (S (S (S i)) < length s)%nat) by (apply nth_error_Some; congruence).
  destruct (cont_byte b3); inversion H; subst; lia.
Qed.

Lemma rune_at_ascii s i b : nth_error s i = Some b -> b < 128 -> rune_at s i = Some (b, 1%nat).
Proof. intros E Hb. unfold rune_at. rewrite E. apply N.ltb_lt in Hb. now rewrite Hb. Qed.

Lemma closure_inv (P : nat -> Prop) step : (forall x y, P x -> In y (step x) -> P y) ->
  forall fuel acc, (forall x, In x acc -> P x) -> forall z, In z (closure fuel step acc) -> P z.
Proof.
  intros Hstep. induction fuel as [|f IH]; intros acc Hacc z Hz; cbn [closure] in Hz; [now apply Hacc|].
  destruct (Nat.eqb _ _); [now apply Hacc|].
  apply IH in Hz; [exact Hz|]. intros x Hx. apply (proj1 (nodupn_In _ _)) in Hx. apply in_app_or in Hx. destruct Hx as [Hx|Hx]; [now apply Hacc|].
  apply in_flat_map in Hx. destruct Hx as (a & Ha & Hy). apply (Hstep a); [now apply Hacc|exact Hy].
Qed.

Theorem ends_bounded s : forall e i j, (i <= length s)%nat -> In j (ends e s i) -> (i <= j <= length s)%nat.
Proof.
  induction e as [c| |neg rs| |a IHa b IHb|a IHa b IHb|a IHa|a IHa|a IHa| |]; intros i j Hi Hj; cbn [ends] in Hj.
  - destruct (nth_error s i) as [x|] eqn:E; [|contradiction].
    assert ((i < length s)%nat) by (apply nth_error_Some; congruence).
    destruct (x =? c); [|contradiction]. destruct Hj as [<-|[]]. lia.
  - destruct (rune_at s i) as [[r w]|] eqn:E; [|contradiction]. apply rune_at_width in E.
    destruct (r =? 10); [contradiction|]. destruct Hj as [<-|[]]. lia.
  - destruct (rune_at s i) as [[r w]|] eqn:E; [|contradiction]. apply rune_at_width in E.
    destruct (in_class neg rs r); [|contradiction]. destruct Hj as [<-|[]]. lia.
  - destruct Hj as [<-|[]]. lia.
  - apply (proj1 (nodupn_In _ _)) in Hj. apply in_flat_map in Hj. destruct Hj as (k & Hk & Hj). apply IHa in Hk; [|exact Hi]. apply IHb in Hj; lia.
  - apply (proj1 (nodupn_In _ _)) in Hj. apply in_app_or in Hj. destruct Hj as [Hj|Hj]; [apply IHa in Hj|apply IHb in Hj]; lia.
  - apply (closure_inv (fun x => (i <= x <= length s)%nat) (ends a s)) in Hj; [exact Hj| |].
    + intros x y Hx Hy. apply IHa in Hy; lia.
    + intros x [<-|[]]. lia.
  - apply (proj1 (nodupn_In _ _)) in Hj. apply in_flat_map in Hj. destruct Hj as (k & Hk & Hj). apply IHa in Hk; [|exact Hi].
    apply (closure_inv (fun x => (k <= x <= length s)%nat) (ends a s)) in Hj; [lia| |].
    + intros x y Hx Hy. apply IHa in Hy; lia.
    + intros x [<-|[]]. lia.
  - apply (proj1 (nodupn_In _ _)) in Hj. destruct Hj as [<-|Hj]; [lia|]. apply IHa in Hj; lia.
  - destruct (Nat.eqb i 0); [|contradiction]. destruct Hj as [<-|[]]. lia.
  - destruct (Nat.eqb i (length s)); [|contradiction]. destruct Hj as [<-|[]]. lia.
Qed.

(* `.` and a class consume one code point: two dots match U+2028 followed by `a` (four bytes), one dot does not match U+2028 alone
   followed by anything, and the bytes of an invalid sequence count one by one *)
Example dot_is_a_code_point :
  full_match (RCat RAny RAny) [226; 128; 168; 97] = true /\ full_match (RCat RAny (RCat RAny (RCat RAny RAny))) [226; 128; 168; 97] = false /\
  full_match (RCat RAny RAny) [226; 128] = true /\ full_match (RClass true [(47, 47)]) [195; 169] = true /\ full_match RAny [195; 169] = true /\
  full_match (RCat RAny RAny) [237; 160; 128] = false /\ full_match (RCat RAny (RCat RAny RAny)) [237; 160; 128] = true.
Proof. vm_compute. repeat split. Qed.

Theorem wrap_new_full e s : search (wrap_new e) s = full_match e s.
Proof.
  unfold search, full_match, wrap_new.
  assert (E0 : forall i, ends (RCat RBol (RCat e REol)) s i = [] \/ (i = 0%nat)).
  { intros i. destruct i; [now right|]. left. reflexivity. }
  assert (Ez : (match ends (RCat RBol (RCat e REol)) s 0 with [] => false | _ => true end)
               = existsb (Nat.eqb (length s)) (ends e s 0)).
  { cbn [ends Nat.eqb flat_map]. rewrite app_nil_r.
    set (inner := nodupn (flat_map (fun j => if Nat.eqb j (length s) then [j] else []) (ends e s 0))).
    assert (Hin : forall x, In x (nodupn inner) <-> (x = length s /\ In (length s) (ends e s 0))).
    { intros x. rewrite nodupn_In. unfold inner. rewrite nodupn_In, in_flat_map. split.
      - intros (j & Hj & Hx). destruct (Nat.eqb_spec j (length s)) as [->|]; [|destruct Hx]. destruct Hx as [<-|[]]. auto.
      - intros [-> H]. exists (length s). split; [assumption|]. rewrite Nat.eqb_refl. now left. }
    destruct (existsb (Nat.eqb (length s)) (ends e s 0)) eqn:Ex.
    - apply existsb_exists in Ex. destruct Ex as (j & Hj & Ej). apply Nat.eqb_eq in Ej. subst j.
      destruct (nodupn inner) as [|y l] eqn:En; [|reflexivity].
      exfalso. assert (In (length s) []) by (apply Hin; auto). assumption.
    - destruct (nodupn inner) as [|y l] eqn:En; [reflexivity|]. exfalso.
      assert (Hy : In y (y :: l)) by now left. apply Hin in Hy. destruct Hy as [_ Hy].
      assert (existsb (Nat.eqb (length s)) (ends e s 0) = true).
      { apply existsb_exists. exists (length s). split; [assumption|apply Nat.eqb_refl]. }
      congruence. }
  cbn [seq existsb]. rewrite Ez.
  assert (Hrest : existsb (fun i => match ends (RCat RBol (RCat e REol)) s i with [] => false | _ => true end)
                    (seq 1 (length s)) = false).
  { apply Bool.not_true_is_false. intros H. apply existsb_exists in H. destruct H as (i & Hi & Hm).
    apply in_seq in Hi. destruct i; [lia|]. discriminate. }
  rewrite Hrest. apply orb_false_r.
Qed.

(* the wrapping used before the fix does not anchor a top-level alternation *)
Lemma wrap_old_refuted :
  exists e s, search (wrap_old e) s = true /\ full_match e s = false.
Proof.
  exists (RAlt (rlit (str "refs/heads/a")) (rlit (str "refs/tags/v1"))), (str "refs/heads/abc").
  vm_compute. split; reflexivity.
Qed.

(* ---- refgroups: a group yields symbols iff it matches ---- *)
Lemma collect_nonempty : forall g own r, (snd (collect g own r) <> []) <-> group_matches g r = true.
Proof.
  fix IH 1. intros [sym name f subs] own r. cbn [collect group_matches]. destruct f as [b|].
  - destruct (eval_b b r) eqn:E; cbn [snd]; [|split; [congruence|discriminate]].
    split; [reflexivity|intros _].
    assert (G : forall l syms, syms <> [] ->
       (fix go (l : list gtree) (syms : list bytes) : list bytes :=
          match l with [] => syms | sg :: l' => go l' (syms ++ snd (collect sg own r)) end) l syms <> []).
    { induction l as [|sg l IHl]; intros syms Hs; [assumption|]. apply IHl. destruct syms; [congruence|discriminate]. }
    specialize (G subs [sym] ltac:(discriminate)).
    match type of G with ?X <> [] => set (syms := X) in * end.
    destruct subs as [|s0 subs']; [exact G|].
    destruct syms as [|a [|b0 l0]]; [congruence|discriminate|discriminate].
  - assert (G : forall l walk syms,
       (snd ((fix go (l : list gtree) (walk : bool) (syms : list bytes) : bool * list bytes :=
          match l with
          | [] => (walk, syms)
          | sg :: l' => let '(w, ss) := collect sg own r in
                        let syms1 := match ss, syms with _ :: _, [] => [sym] | _, _ => syms end in
                        go l' (walk || w) (syms1 ++ ss)
          end) l walk syms) <> [])
       <-> (syms <> [] \/ (fix any (l : list gtree) : bool := match l with [] => false | sg :: l' => group_matches sg r || any l' end) l = true)).
    { induction l as [|sg l IHl]; intros w syms.
      - cbn [snd]. split; [intros H; now left|intros [H|H]; [assumption|discriminate]].
      - specialize (IH sg own r). destruct (collect sg own r) as [w' ss] eqn:Ec. cbn [snd] in IH.
        rewrite IHl. rewrite orb_true_iff, <- IH. split.
        + intros [H|H]; [|tauto]. destruct ss as [|x ss'].
          * left. rewrite app_nil_r in H. destruct syms; [congruence|discriminate].
          * right. left. discriminate.
        + intros [H|[H|H]]; [| |tauto].
          * left. intros E. apply app_eq_nil in E. destruct E as [E1 E2]. destruct ss, syms; try discriminate; congruence.
          * left. intros E. apply app_eq_nil in E. destruct E as [E1 E2]. congruence. }
    rewrite (G subs false []). split; [intros [H|H]; [congruence|assumption]|intros H; now right].
Qed.

(* ---- Categorize ---- *)
Lemma categorize_unwalked subs topf r : topf r = false -> categorize subs topf r = (false, [str "ignored"]).
Proof. intros H. unfold categorize. now rewrite H. Qed.

Lemma fold_syms_head subs r : forall syms x, hd x (fold_left (fun syms sg => syms ++ snd (collect sg (fun _ => true) r)) subs syms) = hd x (syms ++ []) \/ syms = [].
Proof.
  induction subs as [|sg subs IH]; intros syms x; cbn [fold_left].
  - left. now rewrite app_nil_r.
  - destruct syms as [|a syms']; [now right|]. left.
    destruct (IH ((a :: syms') ++ snd (collect sg (fun _ => true) r)) x) as [H|H]; [|discriminate]. rewrite H. reflexivity.
Qed.

(* a walked reference is tallied under the top-level symbol "" first and never under "ignored" *)
Lemma categorize_walked subs topf r : topf r = true ->
  fst (categorize subs topf r) = true /\ hd (str "x") (snd (categorize subs topf r)) = [].
Proof.
  intros H. unfold categorize. rewrite H. cbn [fst snd]. split; [reflexivity|].
  set (syms := fold_left (fun syms sg => syms ++ snd (collect sg (fun _ => true) r)) subs [[]]).
  assert (Hh : hd (str "x") syms = []).
  { destruct (fold_syms_head subs r [[]] (str "x")) as [E|E]; [|discriminate]. fold syms in E. rewrite E. reflexivity. }
  destruct subs as [|s0 subs']; [exact Hh|].
  destruct syms as [|a [|b l]]; exact Hh.
Qed.
