(* ScanTree.v — the tree phase of the scan: instance of the deferred machine,
   its specification value tsz_of, and the link to the unbounded metrics. *)
From Coq Require Import Permutation.
From GS Require Import GoSem Counts Repo RepoProofs Deferred Scan ScanProofs.
Open Scope N_scope.

(* ---- the value every tree must end up with (saturating arithmetic) ---- *)
Definition blob_or0 (blobs : fmap N) (o : oid) : N := match blobs o with Some s => s | None => 0 end.

Definition apply_entry (sub : oid -> tsz) (blobs : fmap N) (acc : tsz) (e : entry) : tsz :=
  let n := blen (e_name e) in
  match entry_kind (e_mode e) with
  | EkTree => add_descendent acc n (sub (e_oid e))
  | EkSub => add_submodule acc n
  | EkLink => add_link acc n
  | EkBlob => add_blob acc n (blob_or0 blobs (e_oid e))
  end.

Fixpoint tsz_of (blobs : fmap N) (r : repo) (o : oid) : tsz :=
  match r with
  | [] => ts_init
  | (o', ob) :: r' =>
      if o =? o' then
        match ob with
        | Tree _ es => fold_left (apply_entry (tsz_of blobs r') blobs) es ts_init
        | _ => ts_init
        end
      else tsz_of blobs r' o
  end.

Definition tnodes (blobs : fmap N) (r : repo) (t : oid) : option (list tdentry) :=
  match lookup r t with
  | Some (Tree _ es) => dentries blobs es
  | _ => None
  end.

(* position from the bottom of the history: children have smaller rank *)
Fixpoint rank (r : repo) (o : oid) : nat :=
  match r with
  | [] => 0
  | (o', _) :: r' => if o =? o' then S (length r') else rank r' o
  end.

Lemma rank_le r o : (rank r o <= length r)%nat.
Proof. induction r as [|[o' ob] r IH]; simpl; [lia|]. destruct (o =? o'); lia. Qed.

Lemma rank_lt_found r o ob : lookup r o = Some ob -> forall o', In o' (ids r) -> True.
Proof. trivial. Qed.

(* stability of structural definitions under extension of the history *)
Lemma tsz_of_cons blobs o1 ob1 r o : o <> o1 -> tsz_of blobs ((o1, ob1) :: r) o = tsz_of blobs r o.
Proof. intros H. simpl. destruct (N.eqb_spec o o1); [contradiction|reflexivity]. Qed.

Lemma tsz_of_here blobs o1 s es r :
  tsz_of blobs ((o1, Tree s es) :: r) o1 = fold_left (apply_entry (tsz_of blobs r) blobs) es ts_init.
Proof. simpl. now rewrite N.eqb_refl. Qed.

Lemma rank_cons o1 ob1 r o : o <> o1 -> rank ((o1, ob1) :: r) o = rank r o.
Proof. intros H. simpl. destruct (N.eqb_spec o o1); [contradiction|reflexivity]. Qed.

(* contributions, as the deferred machine sees them *)
Definition tcontrib_spec (blobs : fmap N) (r : repo) (d : tdentry) : tcontrib :=
  contrib_of tsz tcontrib bytes tcontrib_of (tsz_of blobs r) d.

Lemma apply_entry_eq sub blobs acc e :
  apply_entry sub blobs acc e =
  match entry_kind (e_mode e) with
  | EkTree => add_descendent acc (blen (e_name e)) (sub (e_oid e))
  | EkSub => add_submodule acc (blen (e_name e))
  | EkLink => add_link acc (blen (e_name e))
  | EkBlob => add_blob acc (blen (e_name e)) (blob_or0 blobs (e_oid e))
  end.
Proof. reflexivity. Qed.

Lemma dentries_fold blobs sub : forall es ds acc,
  dentries blobs es = Some ds ->
  fold_left (apply_entry sub blobs) es acc
  = fold_left (fun v c => tapply c v) (map (contrib_of tsz tcontrib bytes tcontrib_of sub) ds) acc.
Proof.
  induction es as [|e es IH]; intros ds acc H; simpl in H.
  - inversion H; subst. reflexivity.
  - destruct (dentries blobs es) as [ds'|] eqn:E; [|discriminate].
    cbn [fold_left]. rewrite apply_entry_eq.
    destruct (entry_kind (e_mode e)) eqn:K.
    + inversion H; subst. cbn [map fold_left contrib_of tcontrib_of tapply]. now apply IH.
    + inversion H; subst. cbn [map fold_left contrib_of tapply]. now apply IH.
    + inversion H; subst. cbn [map fold_left contrib_of tapply]. now apply IH.
    + destruct (blobs (e_oid e)) as [sz|] eqn:B; [|discriminate]. inversion H; subst.
      cbn [map fold_left contrib_of tapply]. unfold blob_or0. rewrite B. now apply IH.
Qed.

Lemma dentries_children blobs : forall es ds n pl,
  dentries blobs es = Some ds -> In (Child tcontrib bytes n pl) ds ->
  exists e, In e es /\ entry_kind (e_mode e) = EkTree /\ e_oid e = n /\ e_name e = pl.
Proof.
  induction es as [|e es IH]; intros ds n pl H Hin; simpl in H.
  - inversion H; subst. destruct Hin.
  - destruct (dentries blobs es) as [ds'|] eqn:E; [|discriminate].
    destruct (entry_kind (e_mode e)) eqn:K.
    + inversion H; subst. destruct Hin as [Hin|Hin].
      * inversion Hin; subst. exists e. repeat split; auto. now left.
      * destruct (IH ds' n pl eq_refl Hin) as (e' & He' & ?). exists e'. split; [now right|assumption].
    + inversion H; subst. destruct Hin as [Hin|Hin]; [discriminate|].
      destruct (IH ds' n pl eq_refl Hin) as (e' & He' & ?). exists e'. split; [now right|assumption].
    + inversion H; subst. destruct Hin as [Hin|Hin]; [discriminate|].
      destruct (IH ds' n pl eq_refl Hin) as (e' & He' & ?). exists e'. split; [now right|assumption].
    + destruct (blobs (e_oid e)); [|discriminate]. inversion H; subst. destruct Hin as [Hin|Hin]; [discriminate|].
      destruct (IH ds' n pl eq_refl Hin) as (e' & He' & ?). exists e'. split; [now right|assumption].
Qed.

(* a tree entry of kind tree is a traversed edge *)
Lemma tree_entry_ref es e : In e es -> entry_kind (e_mode e) = EkTree -> In (e_oid e) (refs_of (Tree 0 es)).
Proof.
  intros Hin K. cbn [refs_of]. apply in_map. apply filter_In. split; [assumption|].
  unfold is_sub. now rewrite K.
Qed.

Lemma refs_of_tree_size s s' es : refs_of (Tree s es) = refs_of (Tree s' es).
Proof. reflexivity. Qed.

Section WithRepo.
Variable r : repo.
Hypothesis Hwf : wf_b r = true.
Variable blobs : fmap N.

(* fold over entries only looks at children, which live in the older part *)
Lemma fold_apply_entry_ext sub1 sub2 es acc :
  (forall e, In e es -> entry_kind (e_mode e) = EkTree -> sub1 (e_oid e) = sub2 (e_oid e)) ->
  fold_left (apply_entry sub1 blobs) es acc = fold_left (apply_entry sub2 blobs) es acc.
Proof.
  revert acc. induction es as [|e es IH]; intros acc H; [reflexivity|]. cbn [fold_left].
  assert (E : apply_entry sub1 blobs acc e = apply_entry sub2 blobs acc e).
  { rewrite !apply_entry_eq. destruct (entry_kind (e_mode e)) eqn:K; try reflexivity.
    rewrite (H e (or_introl eq_refl) K). reflexivity. }
  rewrite E. apply IH. intros e' He' K. apply H; [now right|assumption].
Qed.

(* the defining equation of tsz_of at a tree found by lookup *)
Lemma tsz_of_tree : forall (r0 : repo), wf_b r0 = true -> forall t s es, lookup r0 t = Some (Tree s es) ->
  tsz_of blobs r0 t = fold_left (apply_entry (tsz_of blobs r0) blobs) es ts_init.
Proof.
  induction r0 as [|[o1 ob1] r0 IH]; intros Hw t s es Hl; [discriminate|].
  apply wf_cons in Hw. destruct Hw as (H1 & H2 & H3).
  simpl in Hl. destruct (N.eqb_spec t o1) as [->|Hne].
  - inversion Hl; subst ob1. rewrite tsz_of_here. apply fold_apply_entry_ext. intros e He K.
    assert (Hi : In (e_oid e) (ids r0)).
    { eapply obj_ok_refs; [exact H2|]. eapply tree_entry_ref; eauto. }
    rewrite tsz_of_cons; [reflexivity|]. intros E. rewrite E in Hi. contradiction.
  - rewrite tsz_of_cons by assumption. rewrite (IH H3 t s es Hl). apply fold_apply_entry_ext. intros e He K.
    assert (Hi : In (e_oid e) (ids r0)).
    { apply (wf_lookup r0 H3 t (Tree s es) Hl). eapply tree_entry_ref; eauto. }
    rewrite tsz_of_cons; [reflexivity|]. intros E. rewrite E in Hi. contradiction.
Qed.

Lemma rank_child_lt : forall (r0 : repo), wf_b r0 = true -> forall t ob c, lookup r0 t = Some ob ->
  In c (refs_of ob) -> (rank r0 c < rank r0 t)%nat.
Proof.
  induction r0 as [|[o1 ob1] r0 IH]; intros Hw t ob c Hl Hc; [discriminate|].
  apply wf_cons in Hw. destruct Hw as (H1 & H2 & H3).
  simpl in Hl. destruct (N.eqb_spec t o1) as [->|Hne].
  - inversion Hl; subst ob1. pose proof (obj_ok_refs _ _ _ H2 Hc) as Hi.
    assert (c <> o1) by (intros ->; contradiction).
    rewrite rank_cons by assumption. simpl. rewrite N.eqb_refl. pose proof (rank_le r0 c). lia.
  - destruct (wf_lookup r0 H3 t ob Hl c Hc) as [Hi Hd].
    assert (c <> o1) by (intros ->; contradiction).
    rewrite !rank_cons by assumption. eapply IH; eauto.
Qed.

(* spec_eq for the machine *)
Lemma tnodes_spec_eq n ds : tnodes blobs r n = Some ds ->
  tsz_of blobs r n = app_all tsz tcontrib tapply (map (contrib_of tsz tcontrib bytes tcontrib_of (tsz_of blobs r)) ds) ts_init.
Proof.
  unfold tnodes. destruct (lookup r n) as [[| s es | |]|] eqn:Hl; try discriminate. intros Hd.
  rewrite (tsz_of_tree r Hwf n s es Hl). unfold app_all. now apply dentries_fold.
Qed.

Lemma tnodes_rank t ds n pl : tnodes blobs r t = Some ds -> In (Child tcontrib bytes n pl) ds ->
  (rank r n < rank r t)%nat.
Proof.
  unfold tnodes. destruct (lookup r t) as [[| s es | |]|] eqn:Hl; try discriminate. intros Hd Hin.
  destruct (dentries_children _ _ _ _ _ Hd Hin) as (e & He & K & <- & _).
  eapply rank_child_lt; eauto. eapply tree_entry_ref; eauto.
Qed.

Lemma tnodes_wf_node t ds : tnodes blobs r t = Some ds ->
  In t (ids r) /\ forall n pl, In (Child tcontrib bytes n pl) ds -> n <> t /\ In n (ids r).
Proof.
  unfold tnodes. destruct (lookup r t) as [[| s es | |]|] eqn:Hl; try discriminate. intros Hd.
  split; [eapply lookup_In; eauto|]. intros n pl Hin.
  destruct (dentries_children _ _ _ _ _ Hd Hin) as (e & He & K & <- & _).
  destruct (wf_lookup r Hwf t _ Hl (e_oid e) (tree_entry_ref es e He K)) as [Hi Hd']. split; assumption.
Qed.

End WithRepo.
