(* ScanProofs.v — facts about the scan model.  Part 1: the aggregation is
   insensitive to the order of events (every counter is a saturating sum or a
   running maximum), and the contributions of tree entries commute. *)
From Coq Require Import Permutation.
From GS Require Import GoSem Counts Repo Deferred Scan.
Open Scope N_scope.

Lemma mx_max a b : mx a b = N.max a b.
Proof. unfold mx. apply adj_max_nec_val. Qed.
Lemma mxp_max a b : mxp a b = N.max a b.
Proof. unfold mxp. apply adj_max_poss_val. Qed.

Lemma mx_swap a b c : mx (mx a b) c = mx (mx a c) b.
Proof. rewrite !mx_max. lia. Qed.
Lemma mxp_swap a b c : mxp (mxp a b) c = mxp (mxp a c) b.
Proof. rewrite !mxp_max. lia. Qed.
Lemma sat_add32_swap a b c : sat_add32 (sat_add32 a b) c = sat_add32 (sat_add32 a c) b.
Proof. unfold sat_add32, sat32. lia. Qed.
Lemma sat_add64_swap a b c : sat_add64 (sat_add64 a b) c = sat_add64 (sat_add64 a c) b.
Proof. unfold sat_add64, sat64. lia. Qed.

Ltac swap_fields :=
  repeat first [ reflexivity
               | apply mx_swap | apply mxp_swap | apply sat_add32_swap | apply sat_add64_swap
               | f_equal ].

Lemma record_comm h e1 e2 : record (record h e1) e2 = record (record h e2) e1.
Proof.
  destruct e1, e2; cbn [record h_ncommits h_scommits h_maxcommit h_depth h_maxparents h_ntrees h_strees
    h_nentries h_maxentries h_nblobs h_sblobs h_maxblob h_ntags h_tagdepth h_nrefs h_xdepth h_xlen h_xtrees
    h_xblobs h_xbsize h_xlinks h_xsubs]; try reflexivity;
  repeat match goal with |- context [if ?b then _ else _] => destruct b end;
  f_equal; first [reflexivity | apply mx_swap | apply mxp_swap | apply sat_add32_swap | apply sat_add64_swap].
Qed.

Lemma fold_record_perm l1 l2 : Permutation l1 l2 -> forall h, fold_left record l1 h = fold_left record l2 h.
Proof.
  induction 1 as [|x l1 l2 _ IH|x y l|l1 l2 l3 _ IH1 _ IH2]; intros h; cbn [fold_left].
  - reflexivity.
  - apply IH.
  - now rewrite record_comm.
  - now rewrite IH1.
Qed.

(* the numeric HistorySize does not depend on the order in which the
   record* calls are made *)
Lemma history_of_perm evs1 evs2 : Permutation evs1 evs2 -> history_of evs1 = history_of evs2.
Proof. intros H. unfold history_of. now apply fold_record_perm. Qed.

(* contributions of tree entries commute: the premise of the deferred machine *)
Lemma tapply_comm c1 c2 v : tapply c1 (tapply c2 v) = tapply c2 (tapply c1 v).
Proof.
  destruct c1, c2; cbn [tapply]; unfold add_blob, add_link, add_submodule, add_descendent;
  cbn [t_depth t_len t_trees t_blobs t_bsize t_links t_subs];
  repeat match goal with |- context [if ?b then _ else _] => destruct b end;
  f_equal; first [reflexivity | apply mx_swap | apply sat_add32_swap | apply sat_add64_swap
                  | (rewrite !mx_max; lia)].
Qed.

Lemma tag_apply_comm c1 c2 v : tag_apply c1 (tag_apply c2 v) = tag_apply c2 (tag_apply c1 v).
Proof. unfold tag_apply. apply sat_add32_swap. Qed.
