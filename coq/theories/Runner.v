(* Runner.v — top of the executable model: dispatches one request line. *)
From Coq Require Import String.
From GS Require Import GoSem Text Dispatch DispatchHuman DispatchParsers DispatchScan DispatchRef DispatchConfig DispatchOutput DispatchOptions DispatchMeter DispatchProtocol DispatchPaths.
Open Scope N_scope.

Definition first_some (l : list (option bytes)) : bytes :=
  match flat_map (fun o => match o with Some b => [b] | None => [] end) l with
  | b :: _ => b
  | [] => err "unknown command"
  end.

Definition dispatch (line : bytes) : bytes :=
  match split_on SP line with
  | cmd :: args =>
      first_some [ dispatch_counts cmd args; dispatch_human cmd args;
                   dispatch_parsers cmd args;
                   dispatch_scan cmd args;
                   dispatch_ref cmd args;
                   dispatch_config cmd args;
                   dispatch_output cmd args;
                   dispatch_options cmd args;
                   dispatch_meter cmd args;
                   dispatch_protocol cmd args;
                   dispatch_paths cmd args ]
  | [] => err "empty"
  end.
