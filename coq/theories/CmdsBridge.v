(* CmdsBridge.v — tie T for the git command lines.

   gen/CmdsGen.v lists every call of GitCommand / exec.Command in the non-test
   sources with its argument list (literals verbatim, run-time values as named
   holes), the options GitCommand prepends and the variables it appends to the
   environment — regenerated on every run.  Proved here, by computation:

   * [commands_are_the_protocol]: the argument lists are exactly those of
     Protocol.argv_of over all invocation kinds (a hole matching one run-time
     argument), nothing more, nothing less;
   * [only_gitdir_bypasses]: the one command not built by GitCommand is the
     initial `git -C <path> rev-parse --git-dir`;
   * [globals_disable_replace]: the prepended options contain
     --no-replace-objects and -c core.useReplaceRefs=false, and every -c is
     followed by its setting;
   * [env_sets_gitdir_and_grafts]: the environment gets GIT_DIR=<resolved> and
     GIT_GRAFT_FILE=<null device>, after the inherited variables;
   * [commands_read_only]: every command line is read-only plumbing. *)
From Coq Require Import String.
From GS Require Import GoSem Text Options Protocol.
From GSGen Require Import CmdsGen.
Open Scope N_scope.

(* does a generated argument list denote this concrete argv?  A hole stands for exactly one argument *)
Fixpoint matches (g : list garg) (argv : list bytes) : bool :=
  match g, argv with
  | [], [] => true
  | A l :: g', x :: argv' => beqb l x && matches g' argv'
  | V _ :: g', _ :: argv' => matches g' argv'
  | P p _ :: g', x :: argv' => beqb p (firstn (length p) x) && matches g' argv'
  | _, _ => false
  end.

(* representatives of every invocation kind, with a recognisable run-time argument in each hole *)
Definition hole : bytes := str "<run-time value>".
Definition kinds : list ikind :=
  [KGitDir; KGitPath; KConfigList; KConfigGet hole []; KConfigGet hole (str "--bool"); KConfigGet hole (str "--int");
   KForEachRef; KRevParseVerify hole; KRevList; KCatFileCheck; KCatFileBatch].

(* the argv the model gives a kind, as the program would pass it to exec: KGitDir is run as `git -C <path> rev-parse --git-dir` *)
Definition model_argv (k : ikind) : list bytes :=
  match k with
  | KGitDir => [hole; str "-C"; hole; str "rev-parse"; str "--git-dir"]
  | KGitPath => [str "rev-parse"; str "--git-path"; hole]
  | _ => argv_of k
  end.

Definition args_of (c : bytes * bool * list garg) : list garg := snd c.
Definition via_gitcommand (c : bytes * bool * list garg) : bool := snd (fst c).

(* every generated command is the command of some kind, and every kind has a generated command *)
Definition covers : bool :=
  forallb (fun c => existsb (fun k => matches (args_of c) (model_argv k)) kinds) git_commands &&
  forallb (fun k => existsb (fun c => matches (args_of c) (model_argv k)) git_commands) kinds.

Theorem commands_are_the_protocol : covers = true.
Proof. vm_compute. reflexivity. Qed.

(* the shallow-file lookup is the only use of --git-path (the model's KGitPath passes "shallow") *)
Lemma gitpath_is_shallow : argv_of KGitPath = [str "rev-parse"; str "--git-path"; str "shallow"].
Proof. reflexivity. Qed.

Theorem only_gitdir_bypasses :
  forall c, In c git_commands -> via_gitcommand c = false -> matches (args_of c) (model_argv KGitDir) = true.
Proof.
  assert (H : forallb (fun c => via_gitcommand c || matches (args_of c) (model_argv KGitDir)) git_commands = true) by (vm_compute; reflexivity).
  rewrite forallb_forall in H. intros c Hin Hv. specialize (H c Hin). rewrite Hv in H. exact H.
Qed.

(* the model's invocations carry the flag bundle exactly when they are built by GitCommand *)
Theorem bypass_matches_model : forall k, i_noreplace (inv_of k) = negb (match k with KGitDir => true | _ => false end).
Proof. destruct k; reflexivity. Qed.

Fixpoint dash_c_ok (l : list bytes) : bool :=
  match l with
  | [] => true
  | x :: rest => if beqb x (str "-c") then match rest with _ :: rest' => dash_c_ok rest' | [] => false end else dash_c_ok rest
  end.
Fixpoint has_setting (l : list bytes) (v : bytes) : bool :=
  match l with
  | x :: ((y :: _) as rest) => (beqb x (str "-c") && beqb y v) || has_setting rest v
  | _ => false
  end.

Theorem globals_disable_replace :
  existsb (beqb (str "--no-replace-objects")) git_globals = true /\
  has_setting git_globals (str "core.useReplaceRefs=false") = true /\
  dash_c_ok git_globals = true /\
  git_globals = [str "--no-replace-objects"; str "-c"; str "core.useReplaceRefs=false"; str "-c"; str "advice.graftFileDeprecated=false"].
Proof. repeat split; vm_compute; reflexivity. Qed.

Theorem env_sets_gitdir_and_grafts :
  git_env = [P (str "GIT_DIR=") (str "repo.gitDir"); P (str "GIT_GRAFT_FILE=") (str "os.DevNull")].
Proof. reflexivity. Qed.

(* read-only plumbing: whatever the run-time values in the holes are *)
Definition lit_of (g : garg) : bytes := match g with A l => l | _ => hole end.
Definition cmd_words (c : bytes * bool * list garg) : list bytes :=
  match args_of c with
  | V _ :: rest => map lit_of rest          (* exec.Command(gitBin, ...): the program name is not an argument *)
  | l => map lit_of l
  end.

Theorem commands_read_only : forallb (fun c => readonly_argv (cmd_words c)) git_commands = true.
Proof. vm_compute. reflexivity. Qed.
