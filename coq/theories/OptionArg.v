(* OptionArg.v — model of internal/refopts/filter_value.go interpretFlexibly: how the argument of --include / --exclude is
   read.  Bracketed by slashes (and at least two bytes long): a regular expression, the text between the two delimiters;
   otherwise starting with '@': a refgroup symbol (the empty one is an error); otherwise a prefix. *)
From Coq Require Import String.
From GS Require Import GoSem Text.
Open Scope N_scope.

Inductive argkind := ARegexp (p : bytes) | AGroup (g : bytes) | AMissingGroup | APrefix (p : bytes).

Definition interpret_flexibly (s : bytes) : argkind :=
  if (2 <=? blen s) && has_prefix s [47] && has_suffix s [47]
  then ARegexp (removelast (tl s))                       (* s[1 : len(s)-1] *)
  else match s with
       | 64 :: g => match g with [] => AMissingGroup | _ => AGroup g end
       | _ => APrefix s
       end.

(* /R/ is the regular expression R — whatever R is: only the two delimiters are taken off, also when R itself begins or ends
   with a slash, is empty, or starts with '@' *)
Theorem interpret_regexp r : interpret_flexibly (47 :: r ++ [47]) = ARegexp r.
Proof.
  unfold interpret_flexibly.
  assert (Hp : has_prefix (47 :: r ++ [47]) [47] = true) by (apply has_prefix_spec; now exists (r ++ [47])).
  assert (Hs : has_suffix (47 :: r ++ [47]) [47] = true) by (apply has_suffix_spec; now exists (47 :: r)).
  assert (Hl : (2 <=? blen (47 :: r ++ [47])) = true).
  { unfold blen. cbn [length]. rewrite app_length. cbn [length]. apply N.leb_le. lia. }
  rewrite Hl, Hp, Hs. cbn [andb tl]. now rewrite removelast_last.
Qed.

(* @G is the refgroup G, for every non-empty symbol *)
Theorem interpret_group g : g <> [] -> interpret_flexibly (64 :: g) = AGroup g.
Proof.
  intros Hg. unfold interpret_flexibly.
  assert (Hp : has_prefix (64 :: g) [47] = false).
  { destruct (has_prefix (64 :: g) [47]) eqn:E; [|reflexivity]. apply has_prefix_spec in E. destruct E as (r & E). discriminate. }
  rewrite Hp, andb_false_r. cbn [andb]. destruct g; [contradiction|reflexivity].
Qed.

Theorem interpret_missing_group : interpret_flexibly [64] = AMissingGroup.
Proof. reflexivity. Qed.

(* everything else is a prefix, taken as it is: anything that does not start with '@' and is not bracketed by slashes *)
Theorem interpret_prefix s : (forall g, s <> 64 :: g) -> (forall r, s <> 47 :: r ++ [47]) -> interpret_flexibly s = APrefix s.
Proof.
  intros Hat Hre. unfold interpret_flexibly.
  destruct ((2 <=? blen s) && has_prefix s [47] && has_suffix s [47]) eqn:E.
  - exfalso. apply andb_prop in E. destruct E as (E & Hs). apply andb_prop in E. destruct E as (Hl & Hp).
    apply has_prefix_spec in Hp. destruct Hp as (r1 & ->). apply has_suffix_spec in Hs. destruct Hs as (r2 & Hs).
    cbn [app] in *. destruct r1 as [|x r1] using rev_ind.
    + unfold blen in Hl. cbn in Hl. discriminate.
    + clear IHr1. destruct r2 as [|y r2]; cbn [app] in Hs.
      * injection Hs as Hs. destruct r1; discriminate.
      * injection Hs as Hy Hs. apply app_inj_tail in Hs. destruct Hs as (Hr & Hx). subst x. apply (Hre r1). reflexivity.
  - destruct s as [|c s']; [reflexivity|]. destruct (N.eqb_spec c 64) as [->|Hc]; [exfalso; now apply (Hat s')|].
    destruct c as [|p]; [reflexivity|]. repeat (destruct p as [p|p|]; try reflexivity); exfalso; apply Hc; reflexivity.
Qed.

Example interpret_examples :
  interpret_flexibly (str "//?refs/heads/.*/") = ARegexp (str "/?refs/heads/.*") /\
  interpret_flexibly (str "//") = ARegexp [] /\ interpret_flexibly (str "/") = APrefix (str "/") /\
  interpret_flexibly (str "/@x/") = ARegexp (str "@x") /\ interpret_flexibly (str "@/x/") = AGroup (str "/x/") /\
  interpret_flexibly (str "refs/heads/") = APrefix (str "refs/heads/") /\ interpret_flexibly [] = APrefix [].
Proof. vm_compute. repeat split. Qed.

(* ---- the value of a fixed-pattern flag (--tags=VALUE, --no-branches=VALUE, ...): strconv.ParseBool ---- *)
Definition parse_bool (s : bytes) : option bool :=
  if existsb (beqb s) [str "1"; str "t"; str "T"; str "TRUE"; str "true"; str "True"] then Some true
  else if existsb (beqb s) [str "0"; str "f"; str "F"; str "FALSE"; str "false"; str "False"] then Some false
  else None.

(* the polarity of one occurrence of a flag: its own polarity, inverted by an explicit false value; an unreadable value is an
   error.  It is a function of this occurrence alone — nothing an earlier occurrence did can change it. *)
Definition flag_polarity (include : bool) (value : bytes) : option bool :=
  match parse_bool value with Some b => Some (if b then include else negb include) | None => None end.

Theorem flag_polarity_true inc v : parse_bool v = Some true -> flag_polarity inc v = Some inc.
Proof. unfold flag_polarity. now intros ->. Qed.

Theorem flag_polarity_false inc v : parse_bool v = Some false -> flag_polarity inc v = Some (negb inc).
Proof. unfold flag_polarity. now intros ->. Qed.

Theorem parse_bool_values v b : parse_bool v = Some b <->
  In v (if b then [str "1"; str "t"; str "T"; str "TRUE"; str "true"; str "True"]
        else [str "0"; str "f"; str "F"; str "FALSE"; str "false"; str "False"]).
Proof.
  unfold parse_bool.
  set (ts := [str "1"; str "t"; str "T"; str "TRUE"; str "true"; str "True"]).
  set (fs := [str "0"; str "f"; str "F"; str "FALSE"; str "false"; str "False"]).
  assert (Hex : forall l, existsb (beqb v) l = true <-> In v l).
  { intros l. rewrite existsb_exists. split; [intros (x & Hx & E); apply beqb_eq in E; now subst|intros H; exists v; split; [exact H|apply beqb_refl]]. }
  assert (Hdis : forall x, In x ts -> In x fs -> False).
  { intros x Ht Hf. cbn in Ht, Hf. repeat (destruct Ht as [<-|Ht]; [repeat (destruct Hf as [Hf|Hf]; [discriminate Hf|]); exact Hf|]). exact Ht. }
  destruct (existsb (beqb v) ts) eqn:Et.
  - apply Hex in Et. destruct b; split; intros H; try reflexivity; try exact Et; try discriminate. exfalso. now apply (Hdis v).
  - destruct (existsb (beqb v) fs) eqn:Ef.
    + apply Hex in Ef. destruct b; split; intros H; try reflexivity; try exact Ef; try discriminate.
      exfalso. apply Hex in H. congruence.
    + destruct b; split; intros H; try discriminate; apply Hex in H; congruence.
Qed.
