(* Counts.v — hand-written model of counts/counts.go: saturating counters.
   The bridge lemmas in CountsBridge.v show that the definitions generated
   from the Go source by tools/go2coq coincide with these on every operand. *)
From GS Require Import GoSem.
Open Scope N_scope.

Definition cap32 : N := MaxUint32.
Definition cap64 : N := MaxUint64.

Definition sat32 (x : N) : N := N.min x cap32.
Definition sat64 (x : N) : N := N.min x cap64.

Definition sat_add32 (a b : N) : N := sat32 (a + b).
Definition sat_add64 (a b : N) : N := sat64 (a + b).

(* running maximum; the boolean is "the stored value was replaced" *)
Definition adj_max_nec (cur x : N) : N * bool := if x <=? cur then (cur, false) else (x, true).
Definition adj_max_poss (cur x : N) : N * bool := if x <? cur then (cur, false) else (x, true).

Lemma sat32_in32 x : in32 (sat32 x).
Proof. unfold in32, sat32, cap32, MaxUint32, two32. lia. Qed.
Lemma sat64_in64 x : in64 (sat64 x).
Proof. unfold in64, sat64, cap64, MaxUint64, two64. lia. Qed.
Lemma sat32_le x : sat32 x <= cap32. Proof. unfold sat32. lia. Qed.
Lemma sat64_le x : sat64 x <= cap64. Proof. unfold sat64. lia. Qed.
Lemma sat32_id x : x <= cap32 -> sat32 x = x. Proof. unfold sat32. lia. Qed.
Lemma sat64_id x : x <= cap64 -> sat64 x = x. Proof. unfold sat64. lia. Qed.

(* saturation is a homomorphism for + and max: this is what makes the
   incremental aggregation equal to "saturate the true value once". *)
Lemma sat32_add_l a b : sat32 (sat32 a + b) = sat32 (a + b).
Proof. unfold sat32. lia. Qed.
Lemma sat32_add_r a b : sat32 (a + sat32 b) = sat32 (a + b).
Proof. unfold sat32. lia. Qed.
Lemma sat64_add_l a b : sat64 (sat64 a + b) = sat64 (a + b).
Proof. unfold sat64. lia. Qed.
Lemma sat64_add_r a b : sat64 (a + sat64 b) = sat64 (a + b).
Proof. unfold sat64. lia. Qed.
Lemma sat32_max a b : N.max (sat32 a) (sat32 b) = sat32 (N.max a b).
Proof. unfold sat32. lia. Qed.
Lemma sat64_max a b : N.max (sat64 a) (sat64 b) = sat64 (N.max a b).
Proof. unfold sat64. lia. Qed.
Lemma sat32_idem a : sat32 (sat32 a) = sat32 a.
Proof. unfold sat32. lia. Qed.
Lemma sat64_idem a : sat64 (sat64 a) = sat64 a.
Proof. unfold sat64. lia. Qed.
Lemma sat64_sat32 a : sat64 (sat32 a) = sat32 a.
Proof. unfold sat64, sat32, cap32, cap64, MaxUint32, MaxUint64. lia. Qed.
Lemma sat32_mono a b : a <= b -> sat32 a <= sat32 b.
Proof. unfold sat32. lia. Qed.
Lemma sat64_mono a b : a <= b -> sat64 a <= sat64 b.
Proof. unfold sat64. lia. Qed.

Lemma sat_add32_comm a b : sat_add32 a b = sat_add32 b a.
Proof. unfold sat_add32. now rewrite N.add_comm. Qed.
Lemma sat_add64_comm a b : sat_add64 a b = sat_add64 b a.
Proof. unfold sat_add64. now rewrite N.add_comm. Qed.
Lemma sat_add32_assoc a b c : sat_add32 (sat_add32 a b) c = sat_add32 a (sat_add32 b c).
Proof. unfold sat_add32, sat32. lia. Qed.
Lemma sat_add64_assoc a b c : sat_add64 (sat_add64 a b) c = sat_add64 a (sat_add64 b c).
Proof. unfold sat_add64, sat64. lia. Qed.

Lemma adj_max_nec_val cur x : fst (adj_max_nec cur x) = N.max cur x.
Proof. unfold adj_max_nec. destruct (x <=? cur) eqn:E; simpl; lia. Qed.
Lemma adj_max_poss_val cur x : fst (adj_max_poss cur x) = N.max cur x.
Proof. unfold adj_max_poss. destruct (x <? cur) eqn:E; simpl; lia. Qed.
Lemma adj_max_nec_flag cur x : snd (adj_max_nec cur x) = (cur <? x).
Proof. unfold adj_max_nec. destruct (x <=? cur) eqn:E; simpl; lia. Qed.
Lemma adj_max_poss_flag cur x : snd (adj_max_poss cur x) = (cur <=? x).
Proof. unfold adj_max_poss. destruct (x <? cur) eqn:E; simpl; lia. Qed.

(* sums and maxima of lists, used by the specifications *)
Definition sumN (l : list N) : N := fold_right N.add 0 l.
Definition maxN (l : list N) : N := fold_right N.max 0 l.

Lemma sumN_app l1 l2 : sumN (l1 ++ l2) = sumN l1 + sumN l2.
Proof. induction l1 as [|a l1 IH]; simpl; lia. Qed.
Lemma maxN_app l1 l2 : maxN (l1 ++ l2) = N.max (maxN l1) (maxN l2).
Proof. induction l1 as [|a l1 IH]; simpl; lia. Qed.
Lemma maxN_ge l x : In x l -> x <= maxN l.
Proof. induction l as [|a l IH]; simpl; [tauto|]. intros [->|H]; [lia|]. specialize (IH H). lia. Qed.
Lemma maxN_in l : l <> [] -> In (maxN l) l.
Proof.
  induction l as [|a l IH]; [congruence|]. intros _. simpl.
  destruct l as [|b l]; [simpl; left; lia|].
  assert (H : In (maxN (b :: l)) (b :: l)) by (apply IH; congruence).
  destruct (N.max_spec a (maxN (b :: l))) as [[_ ->]|[_ ->]]; [now right|now left].
Qed.

(* folding sat_add over a list = saturating the exact sum *)
Lemma fold_sat_add32 l a : a <= cap32 ->
  fold_left (fun acc x => sat_add32 acc x) l a = sat32 (a + sumN l).
Proof.
  revert a; induction l as [|x l IH]; intros a Ha; simpl.
  - rewrite N.add_0_r. now rewrite sat32_id.
  - rewrite IH by apply sat32_le. unfold sat_add32. rewrite sat32_add_l. f_equal. lia.
Qed.
Lemma fold_sat_add64 l a : a <= cap64 ->
  fold_left (fun acc x => sat_add64 acc x) l a = sat64 (a + sumN l).
Proof.
  revert a; induction l as [|x l IH]; intros a Ha; simpl.
  - rewrite N.add_0_r. now rewrite sat64_id.
  - rewrite IH by apply sat64_le. unfold sat_add64. rewrite sat64_add_l. f_equal. lia.
Qed.
Lemma fold_max l a : fold_left N.max l a = N.max a (maxN l).
Proof. revert a; induction l as [|x l IH]; intros a; simpl; [lia|]. rewrite IH. lia. Qed.
