From Coq Require Import String.
From GS Require Import GoSem Text Dispatch DispatchParsers DispatchScan Options DispatchOptions Protocol.
Open Scope N_scope.

Definition show_inv (i : invocation) : bytes :=
  (if i_noreplace i then str "1" else str "0") ++ (if i_env i then str "1" else str "0") ++ [COLON] ++
  join_with [COMMA] (map hxb (i_argv i)).

Fixpoint split_at (sep : bytes) (toks : list bytes) : list bytes * list bytes :=
  match toks with
  | [] => ([], [])
  | t :: toks' => if beqb t sep then ([], toks') else let '(a, b) := split_at sep toks' in (t :: a, b)
  end.

(* trace <ngroups> opt* R roothex* *)
Definition dispatch_protocol (cmd : bytes) (args : list bytes) : option bytes :=
  if beqb cmd (str "trace") then
    Some match args with
         | ng :: toks =>
             let '(otoks, rtoks) := split_at (str "R") toks in
             let os := flat_map (fun t => match opt_of t with Some o => [o] | None => [] end) otoks in
             let roots := flat_map (fun t => match unhxb t with Some r => [r] | None => [] end) rtoks in
             match undec ng, apply_opts (init_state true) os with
             | Some n, Some st => join_with [SP] (map show_inv (trace (N.to_nat n) st roots))
             | _, _ => str "ERR"
             end
         | [] => err "arity"
         end
  else if beqb cmd (str "statusok") then
    (* statusok <invocation name> <status>: does the consumer accept this exit status? *)
    Some match args with
         | [k; st] =>
             let kind := if beqb (firstn 11 k) (str "config-get:") then KConfigGet (skipn 11 k) [] else
                         if beqb k (str "git-dir") then KGitDir else if beqb k (str "git-path") then KGitPath else
                         if beqb k (str "config-list") then KConfigList else if beqb k (str "for-each-ref") then KForEachRef else
                         if beqb k (str "rev-parse-verify") then KRevParseVerify [] else if beqb k (str "rev-list") then KRevList else
                         if beqb k (str "cat-file-batch-check") then KCatFileCheck else KCatFileBatch in
             match undec st with
             | Some n => bool_b (status_ok kind (mk_ans [] n))
             | None => err "bad status" end
         | _ => err "arity" end
  else None.
