(* ResolveProofs.v — the InOrderPathResolver (--names=full).
   Part 1: structural invariant of the resolver state and stability of the
           object a path index stands for.
   Part 2: the object cited for a metric attains the metric (full names).
   Part 3: the description built for a cited object resolves to that object
           under a stated model of `git rev-parse` (Resolve section). *)
From Coq Require Import String.
From GS Require Import GoSem Text Counts Repo Deferred Scan ScanProofs PathResolver PathProofs.
Open Scope N_scope.

(* ---------------------------------------------------------------- Part 1 *)
Definition plen (s : rstate) : nat := length (rs_paths s).

Definition wf_rs (s : rstate) : Prop :=
  forall o i, In (o, i) (rs_sought s) ->
    (i < plen s)%nat /\ pr_oid (get_path s i) = o /\ pr_parent (get_path s i) = None /\ pr_rel (get_path s i) = [].

(* indices keep their object and type; the table only grows *)
Definition stable (s s' : rstate) : Prop :=
  (plen s <= plen s')%nat /\
  forall i, (i < plen s)%nat -> pr_oid (get_path s' i) = pr_oid (get_path s i) /\ pr_type (get_path s' i) = pr_type (get_path s i).

Lemma stable_refl s : stable s s.
Proof. split; [lia|auto]. Qed.

Lemma stable_trans a b c : stable a b -> stable b c -> stable a c.
Proof.
  intros [L1 H1] [L2 H2]. split; [lia|]. intros i Hi. destruct (H1 i Hi) as [A B]. destruct (H2 i ltac:(lia)) as [C D].
  split; congruence.
Qed.

Lemma sought_find_in l o i : sought_find l o = Some i -> In (o, i) l.
Proof.
  induction l as [|[o' j] l IH]; [discriminate|]. cbn [sought_find]. destruct (N.eqb_spec o o') as [->|Hne].
  - intros H. inversion H. now left.
  - intros H. right. now apply IH.
Qed.

Lemma sought_del_in l o x : In x (sought_del l o) -> In x l /\ fst x <> o.
Proof.
  unfold sought_del. intros H. apply filter_In in H. destruct H as [H1 H2]. split; [assumption|].
  apply Bool.negb_true_iff, N.eqb_neq in H2. assumption.
Qed.

Lemma get_path_upd_same s i f : (i < plen s)%nat ->
  get_path (mk_rs (upd_nth (rs_paths s) i f) (rs_sought s) (rs_panic s)) i = f (get_path s i).
Proof. intros H. unfold get_path. cbn [rs_paths]. now apply upd_nth_same. Qed.

Lemma nth_upd_nth {A} (l : list A) i j f d : nth j (upd_nth l i f) d = if Nat.eqb i j then (if Nat.ltb i (length l) then f (nth i l d) else d) else nth j l d.
Proof.
  destruct (Nat.eqb_spec i j) as [->|Hne].
  - destruct (Nat.ltb_spec j (length l)).
    + now apply upd_nth_same.
    + rewrite nth_overflow; [reflexivity|]. rewrite upd_nth_length. lia.
  - now apply upd_nth_other.
Qed.

(* a field update that keeps oid and type *)
Definition keeps (f : prec -> prec) : Prop := forall p, pr_oid (f p) = pr_oid p /\ pr_type (f p) = pr_type p.

Lemma stable_upd s i f sought panic : keeps f -> stable s (mk_rs (upd_nth (rs_paths s) i f) sought panic).
Proof.
  intros Hk. split; [unfold plen; cbn [rs_paths]; rewrite upd_nth_length; lia|].
  intros j Hj. unfold get_path. cbn [rs_paths]. rewrite nth_upd_nth.
  destruct (Nat.eqb_spec i j) as [->|Hne]; [|auto].
  unfold plen in Hj. destruct (Nat.ltb_spec j (length (rs_paths s))); [apply Hk|lia].
Qed.

(* request *)
Lemma request_spec s o k : wf_rs s ->
  let '(s', i) := request s o k in
  wf_rs s' /\ stable s s' /\ (i < plen s')%nat /\ pr_oid (get_path s' i) = o /\ rs_panic s' = rs_panic s.
Proof.
  intros Hwf. unfold request. destruct (sought_find (rs_sought s) o) as [i|] eqn:E.
  - apply sought_find_in in E. destruct (Hwf o i E) as (Hi & Ho & Hp & Hr).
    set (f := fun p => mk_prec (pr_oid p) (pr_type p) ((pr_seek p + 1) mod 256) (pr_parent p) (pr_rel p)).
    assert (Hk : keeps f) by (intros p; split; reflexivity).
    assert (Hs := stable_upd s i f (rs_sought s) (rs_panic s) Hk).
    cbv beta iota. split; [|split; [exact Hs|split; [|split; [|reflexivity]]]].
    + intros o' j Hin. cbn [rs_sought] in Hin. destruct (Hwf o' j Hin) as (Hj & Ho' & Hp' & Hr').
      unfold plen. cbn [rs_paths]. rewrite upd_nth_length. split; [assumption|].
      unfold get_path. cbn [rs_paths]. rewrite nth_upd_nth.
      destruct (Nat.eqb_spec i j) as [->|Hne]; [|auto].
      destruct (Nat.ltb_spec j (length (rs_paths s))); [|unfold plen in Hj; lia].
      unfold get_path in *. unfold f. cbn. auto.
    + unfold plen. cbn [rs_paths]. rewrite upd_nth_length. assumption.
    + rewrite get_path_upd_same by assumption. unfold f. cbn. assumption.
  - set (p := mk_prec o k 1 None []).
    assert (Hget : forall j, (j < plen s)%nat -> get_path (mk_rs (rs_paths s ++ [p]) ((o, length (rs_paths s)) :: rs_sought s) (rs_panic s)) j = get_path s j).
    { intros j Hj. unfold get_path. cbn [rs_paths]. now rewrite app_nth1. }
    assert (Hnew : get_path (mk_rs (rs_paths s ++ [p]) ((o, length (rs_paths s)) :: rs_sought s) (rs_panic s)) (length (rs_paths s)) = p).
    { unfold get_path. cbn [rs_paths]. rewrite app_nth2 by lia. now rewrite Nat.sub_diag. }
    cbv beta iota. split; [|split; [split|split; [|split; [|reflexivity]]]].
    + intros o' j Hin. cbn [rs_sought] in Hin. unfold plen. cbn [rs_paths]. rewrite app_length. cbn [length].
      destruct Hin as [Hin|Hin].
      * inversion Hin; subst. rewrite Hnew. cbn. repeat split; try reflexivity. lia.
      * destruct (Hwf o' j Hin) as (Hj & Ho' & Hp' & Hr'). rewrite Hget by assumption. repeat split; try assumption. unfold plen in Hj. lia.
    + unfold plen. cbn [rs_paths]. rewrite app_length. lia.
    + intros j Hj. rewrite Hget by assumption. split; reflexivity.
    + unfold plen. cbn [rs_paths]. rewrite app_length. cbn [length]. lia.
    + rewrite Hnew. reflexivity.
Qed.

(* forget *)
Lemma forget_spec fuel : forall s i, wf_rs s -> wf_rs (forget fuel s i) /\ stable s (forget fuel s i) /\ plen (forget fuel s i) = plen s.
Proof.
  induction fuel as [|f IH]; intros s i Hwf; cbn [forget]; [split; [assumption|split; [apply stable_refl|reflexivity]]|].
  destruct (pr_seek (get_path s i) =? 0).
  { split; [exact Hwf|]. split; [|reflexivity]. split; [unfold plen; cbn [rs_paths]; lia|]. intros j Hj. split; reflexivity. }
  set (c := pr_seek (get_path s i) - 1).
  set (g := fun p => mk_prec (pr_oid p) (pr_type p) c (pr_parent p) (pr_rel p)).
  set (s1 := mk_rs (upd_nth (rs_paths s) i g) (rs_sought s) (rs_panic s)).
  assert (Hk : keeps g) by (intros p; split; reflexivity).
  assert (Hs1 : stable s s1) by (apply stable_upd; assumption).
  assert (Hl1 : plen s1 = plen s) by (unfold plen, s1; cbn [rs_paths]; apply upd_nth_length).
  assert (Hget1 : forall j, pr_oid (get_path s1 j) = pr_oid (get_path s j) /\ pr_parent (get_path s1 j) = pr_parent (get_path s j)
                            /\ pr_rel (get_path s1 j) = pr_rel (get_path s j)).
  { intros j. unfold get_path, s1. cbn [rs_paths]. rewrite nth_upd_nth. destruct (Nat.eqb_spec i j) as [->|]; [|auto].
    destruct (Nat.ltb_spec j (length (rs_paths s))); [unfold g; cbn; auto|].
    rewrite nth_overflow by lia. auto. }
  assert (Hwf1 : wf_rs s1).
  { intros o' j Hin. cbn [s1 rs_sought] in Hin. destruct (Hwf o' j Hin) as (Hj & Ho' & Hp' & Hr').
    destruct (Hget1 j) as (A & B & C). rewrite Hl1, A, B, C. auto. }
  destruct (0 <? c); [split; [assumption|split; assumption]|].
  destruct (pr_parent (get_path s i)) as [par|].
  - destruct (IH s1 par Hwf1) as (A & B & C). split; [assumption|]. split; [eapply stable_trans; eassumption|]. congruence.
  - destruct (pr_rel (get_path s i)); [|split; [assumption|split; assumption]].
    split; [|split; [exact Hs1|exact Hl1]].
    intros o' j Hin. cbn [rs_sought rs_paths] in Hin. apply sought_del_in in Hin. destruct Hin as [Hin _].
    exact (Hwf1 o' j Hin).
Qed.

(* record_name *)
Lemma record_name_spec s name o : wf_rs s ->
  wf_rs (record_name s name o) /\ stable s (record_name s name o) /\ plen (record_name s name o) = plen s.
Proof.
  intros Hwf. unfold record_name. destruct (sought_find (rs_sought s) o) as [i|] eqn:E; [|split; [assumption|split; [apply stable_refl|reflexivity]]].
  set (g := fun p => mk_prec (pr_oid p) (pr_type p) (pr_seek p) (pr_parent p) name).
  assert (Hk : keeps g) by (intros p; split; reflexivity).
  split; [|split; [apply stable_upd; assumption|unfold plen; cbn [rs_paths]; apply upd_nth_length]].
  apply sought_find_in in E. destruct (Hwf o i E) as (Hi & Ho & Hp & Hr).
  intros o' j Hin. cbn [rs_sought] in Hin. apply sought_del_in in Hin. destruct Hin as [Hin Hne]. cbn [fst] in Hne.
  destruct (Hwf o' j Hin) as (Hj & Ho' & Hp' & Hr').
  unfold plen. cbn [rs_paths]. rewrite upd_nth_length. split; [assumption|].
  unfold get_path. cbn [rs_paths]. rewrite nth_upd_nth.
  destruct (Nat.eqb_spec i j) as [->|]; [|auto].
  exfalso. apply Hne. unfold get_path in *. congruence.
Qed.

(* record_link *)
Lemma record_link_spec s parent pk name child : wf_rs s ->
  wf_rs (record_link s parent pk name child) /\ stable s (record_link s parent pk name child).
Proof.
  intros Hwf. unfold record_link. destruct (sought_find (rs_sought s) child) as [i|] eqn:E; [|split; [assumption|apply stable_refl]].
  destruct (pr_parent (get_path s i)); [split; [exact Hwf|split; [unfold plen; cbn [rs_paths]; lia|intros j Hj; split; reflexivity]]|].
  pose proof (request_spec s parent pk Hwf) as R. destruct (request s parent pk) as [s1 pi]. destruct R as (W1 & S1 & Hpi & Hop & _).
  set (g := fun p => mk_prec (pr_oid p) (pr_type p) (pr_seek p) (Some pi) name).
  assert (Hk : keeps g) by (intros p; split; reflexivity).
  split; [|eapply stable_trans; [exact S1|apply stable_upd; assumption]].
  intros o' j Hin. cbn [rs_sought] in Hin. apply sought_del_in in Hin. destruct Hin as [Hin Hne]. cbn [fst] in Hne.
  destruct (W1 o' j Hin) as (Hj & Ho' & Hp' & Hr').
  unfold plen. cbn [rs_paths]. rewrite upd_nth_length. split; [assumption|].
  unfold get_path. cbn [rs_paths]. rewrite nth_upd_nth.
  destruct (Nat.eqb_spec i j) as [->|]; [|auto].
  exfalso. apply Hne. rewrite <- Ho'.
  apply sought_find_in in E. destruct (Hwf child j E) as (Hj0 & Ho0 & _). destruct S1 as [_ S1]. destruct (S1 j Hj0) as [A _].
  congruence.
Qed.

(* ---------------------------------------------------------------- Part 2 *)
(* set_path with full names *)
Lemma set_path_full st y o k : wf_rs (ps_res st) -> length (ps_slots st) = 12%nat ->
  (forall x i, hslot st x = SVPath i -> (i < plen (ps_res st))%nat) ->
  let st' := set_path NSFull st y o k in
  wf_rs (ps_res st') /\ length (ps_slots st') = 12%nat /\ stable (ps_res st) (ps_res st') /\ ps_hist st' = ps_hist st /\
  (exists i, hslot st' y = SVPath i /\ (i < plen (ps_res st'))%nat /\ pr_oid (get_path (ps_res st') i) = o) /\
  (forall x, x <> y -> hslot st' x = hslot st x).
Proof.
  intros Hwf Hl Hb. unfold set_path.
  set (r1 := match nth (slot_index y) (ps_slots st) SVNone with
             | SVPath i => forget (S (length (rs_paths (ps_res st)))) (ps_res st) i
             | _ => ps_res st end).
  assert (H1 : wf_rs r1 /\ stable (ps_res st) r1).
  { unfold r1. destruct (nth (slot_index y) (ps_slots st) SVNone) as [|i|]; try (split; [assumption|apply stable_refl]).
    destruct (forget_spec (S (length (rs_paths (ps_res st)))) (ps_res st) i Hwf) as (A & B & _). split; assumption. }
  destruct H1 as [W1 S1].
  pose proof (request_spec r1 o k W1) as R. destruct (request r1 o k) as [r2 i]. destruct R as (W2 & S2 & Hi & Ho & _).
  cbn [ps_res ps_slots ps_hist]. split; [assumption|]. split; [rewrite upd_nth_length; assumption|].
  split; [eapply stable_trans; eassumption|]. split; [reflexivity|]. split.
  - exists i. split; [|split; assumption]. unfold hslot. cbn [ps_slots]. rewrite upd_nth_same; [reflexivity|]. rewrite Hl. apply slot_index_lt.
  - intros x Hne. unfold hslot. cbn [ps_slots]. apply upd_nth_other. intros E. apply Hne. symmetry. now apply slot_index_inj.
Qed.

(* what the slots need to satisfy along the fold: indices in range *)
Definition slots_ok (st : pstate) : Prop :=
  wf_rs (ps_res st) /\ length (ps_slots st) = 12%nat /\
  (forall x i, hslot st x = SVPath i -> (i < plen (ps_res st))%nat) /\
  (forall x o k, hslot st x <> SVHash o k).

(* a sequence of conditional setPath calls for one object *)
Definition multi_set (st : pstate) (o : oid) (k : okind) (l : list (slotid * bool)) : pstate :=
  fold_left (fun st yf => cond_set NSFull (snd yf) st (fst yf) o k) l st.

Definition set_in (l : list (slotid * bool)) (x : slotid) : bool :=
  existsb (fun yf => slot_eqb x (fst yf) && snd yf) l.

Lemma slot_eqb_eq x y : slot_eqb x y = true <-> x = y.
Proof. unfold slot_eqb. rewrite Nat.eqb_eq. split; [apply slot_index_inj|now intros ->]. Qed.

Lemma multi_set_spec l : forall st o k, slots_ok st ->
  let st' := multi_set st o k l in
  slots_ok st' /\ stable (ps_res st) (ps_res st') /\ ps_hist st' = ps_hist st /\
  forall x, if set_in l x
            then exists i, hslot st' x = SVPath i /\ (i < plen (ps_res st'))%nat /\ pr_oid (get_path (ps_res st') i) = o
            else hslot st' x = hslot st x.
Proof.
  induction l as [|[y flag] l IH]; intros st o k Hok.
  - cbn [multi_set fold_left]. split; [exact Hok|]. split; [apply stable_refl|]. split; [reflexivity|]. intros x. reflexivity.
  - cbn [multi_set fold_left fst snd]. fold (multi_set (cond_set NSFull flag st y o k) o k l).
    destruct Hok as (Hwf & Hl & Hb & Hh).
    assert (Hmid : let st1 := cond_set NSFull flag st y o k in
                   slots_ok st1 /\ stable (ps_res st) (ps_res st1) /\ ps_hist st1 = ps_hist st /\
                   (flag = true -> exists i, hslot st1 y = SVPath i /\ (i < plen (ps_res st1))%nat /\ pr_oid (get_path (ps_res st1) i) = o) /\
                   (forall x, x <> y \/ flag = false -> hslot st1 x = hslot st x)).
    { unfold cond_set. destruct flag.
      - destruct (set_path_full st y o k Hwf Hl Hb) as (A & B & C & D & (i & E1 & E2 & E3) & F).
        split; [|split; [assumption|split; [assumption|split]]].
        + split; [assumption|]. split; [assumption|]. split.
          * intros x j Hx. destruct (slot_eqb x y) eqn:Exy.
            -- apply slot_eqb_eq in Exy. subst x. rewrite E1 in Hx. inversion Hx; subst. assumption.
            -- assert (x <> y) by (intros ->; rewrite (proj2 (slot_eqb_eq y y) eq_refl) in Exy; discriminate).
               rewrite (F x H) in Hx. destruct C as [C _]. specialize (Hb x j Hx). lia.
          * intros x o' k' Hx. destruct (slot_eqb x y) eqn:Exy.
            -- apply slot_eqb_eq in Exy. subst x. rewrite E1 in Hx. discriminate.
            -- assert (x <> y) by (intros ->; rewrite (proj2 (slot_eqb_eq y y) eq_refl) in Exy; discriminate).
               rewrite (F x H) in Hx. exact (Hh x o' k' Hx).
        + intros _. exists i. auto.
        + intros x [Hne|Hf]; [now apply F|discriminate].
      - split; [exact (conj Hwf (conj Hl (conj Hb Hh)))|]. split; [apply stable_refl|]. split; [reflexivity|]. split; [discriminate|]. auto. }
    destruct Hmid as (Hok1 & S1 & Hh1 & Hset & Hkeep).
    destruct (IH (cond_set NSFull flag st y o k) o k Hok1) as (Hok2 & S2 & Hh2 & Hx).
    split; [assumption|]. split; [eapply stable_trans; eassumption|]. split; [congruence|].
    intros x. specialize (Hx x). change (set_in ((y, flag) :: l) x) with ((slot_eqb x y && flag) || set_in l x).
    destruct (set_in l x) eqn:El.
    + rewrite Bool.orb_true_r. exact Hx.
    + rewrite Bool.orb_false_r. destruct (slot_eqb x y && flag) eqn:E.
      * apply andb_prop in E. destruct E as [E1 E2]. apply slot_eqb_eq in E1. subst x flag.
        destruct (Hset eq_refl) as (i & A & B & C). exists i. rewrite Hx, A. split; [reflexivity|].
        destruct S2 as [L2 S2]. split; [lia|]. rewrite (proj1 (S2 i B)). assumption.
      * rewrite Hx. apply Hkeep. apply Bool.andb_false_iff in E. destruct E as [E|E]; [left|right; assumption].
        intros ->. rewrite (proj2 (slot_eqb_eq y y) eq_refl) in E. discriminate.
Qed.

(* pstep as multi_set followed by the resolver bookkeeping of link / name events *)
Definition sets_of (h : hist) (e : ev) : option (oid * okind * list (slotid * bool)) :=
  match e with
  | EvBlob o size => Some (o, KBlob, [(SMaxBlob, snd (adj_max_nec (h_maxblob h) size))])
  | EvTree o ts _ entries =>
      Some (o, KTree, [(SMaxEntries, snd (adj_max_nec (h_maxentries h) entries)); (SXDepth, snd (adj_max_nec (h_xdepth h) (t_depth ts)));
                       (SXLen, snd (adj_max_nec (h_xlen h) (t_len ts))); (SXTrees, snd (adj_max_nec (h_xtrees h) (t_trees ts)));
                       (SXBlobs, snd (adj_max_nec (h_xblobs h) (t_blobs ts))); (SXBsize, snd (adj_max_nec (h_xbsize h) (t_bsize ts)));
                       (SXLinks, snd (adj_max_nec (h_xlinks h) (t_links ts))); (SXSubs, snd (adj_max_nec (h_xsubs h) (t_subs ts)))])
  | EvCommit o _ size np =>
      Some (o, KCommit, [(SMaxCommit, snd (adj_max_poss (h_maxcommit h) size)); (SMaxParents, snd (adj_max_poss (h_maxparents h) np))])
  | EvTag o depth _ => Some (o, KTag, [(SMaxTagDepth, snd (adj_max_nec (h_tagdepth h) depth))])
  | _ => None
  end.

Lemma pstep_sets st e o k l : sets_of (ps_hist st) e = Some (o, k, l) ->
  pstep NSFull st e = (let st1 := multi_set st o k l in mk_ps (record (ps_hist st) e) (ps_res st1) (ps_slots st1)).
Proof. destruct e; intros H; inversion H; subst; reflexivity. Qed.

Lemma set_in_flag (h : hist) e o k l x : sets_of h e = Some (o, k, l) ->
  set_in l x = match ev_val x e with
               | Some (_, v) => match x with
                                | SMaxCommit | SMaxParents => snd (adj_max_poss (slot_val x h) v)
                                | _ => snd (adj_max_nec (slot_val x h) v)
                                end
               | None => false
               end /\ (forall o' v, ev_val x e = Some (o', v) -> o' = o).
Proof.
  destruct e; intros H; inversion H; subst; clear H; (split; [|destruct x; cbn; intros o' v E; inversion E; reflexivity]);
    destruct x; cbn [set_in existsb fst snd slot_eqb slot_index Nat.eqb andb orb ev_val slot_val];
    rewrite ?Bool.orb_false_r; reflexivity.
Qed.

Definition witness_full_ok (evs : list ev) (st : pstate) (x : slotid) : Prop :=
  match hslot st x with
  | SVPath i => (i < plen (ps_res st))%nat /\
                exists e v, In e evs /\ ev_val x e = Some (pr_oid (get_path (ps_res st) i), v) /\ v = slot_val x (ps_hist st)
  | SVNone => slot_val x (ps_hist st) = 0
  | SVHash _ _ => False
  end.

Lemma slots_ok_res st r' : slots_ok st -> wf_rs r' -> stable (ps_res st) r' -> slots_ok (mk_ps (ps_hist st) r' (ps_slots st)).
Proof.
  intros (A & B & C & D) W [L S]. split; [assumption|]. split; [assumption|]. split; [|assumption].
  intros x i Hx. specialize (C x i Hx). cbn [ps_res]. lia.
Qed.

(* with full names: every cited path stands for the object of a record* event whose value is the reported maximum *)
Theorem witness_full evs : slots_ok (presolve NSFull evs) /\ forall x, witness_full_ok evs (presolve NSFull evs) x.
Proof.
  induction evs as [|e evs IH] using rev_ind.
  - split.
    + split; [intros o i H; destruct H|]. split; [reflexivity|]. split; [intros x i H|intros x o k H]; destruct x; discriminate H.
    + intros x. unfold witness_full_ok, presolve, hslot. cbn [fold_left ps0 ps_slots ps_hist]. destruct x; reflexivity.
  - rewrite presolve_snoc. set (st := presolve NSFull evs) in *. destruct IH as [Hok Hw].
    destruct (sets_of (ps_hist st) e) as [[[o k] l]|] eqn:Es.
    + rewrite (pstep_sets st e o k l Es). cbv zeta.
      destruct (multi_set_spec l st o k Hok) as (Hok1 & S1 & Hh1 & Hx).
      set (st1 := multi_set st o k l) in *.
      split.
      { destruct Hok1 as (A & B & C & D). split; [assumption|]. split; [assumption|]. split; assumption. }
      intros x. specialize (Hx x). specialize (Hw x). unfold witness_full_ok in *.
      change (hslot (mk_ps (record (ps_hist st) e) (ps_res st1) (ps_slots st1)) x) with (hslot st1 x).
      cbn [ps_res ps_hist]. rewrite slot_val_record.
      destruct (set_in_flag (ps_hist st) e o k l x Es) as [Ef Eo]. rewrite Ef in Hx.
      destruct (ev_val x e) as [[o' v]|] eqn:Ev.
      * assert (o' = o) by (eapply Eo; reflexivity). subst o'.
        set (flag := match x with
                     | SMaxCommit | SMaxParents => snd (adj_max_poss (slot_val x (ps_hist st)) v)
                     | _ => snd (adj_max_nec (slot_val x (ps_hist st)) v) end) in *.
        assert (Hflag : flag = true -> N.max (slot_val x (ps_hist st)) v = v)
          by (unfold flag; destruct x; rewrite ?adj_max_nec_flag, ?adj_max_poss_flag; lia).
        assert (Hnflag : flag = false -> N.max (slot_val x (ps_hist st)) v = slot_val x (ps_hist st))
          by (unfold flag; destruct x; rewrite ?adj_max_nec_flag, ?adj_max_poss_flag; lia).
        destruct flag.
        -- destruct Hx as (i & A & B & C). rewrite A. split; [assumption|]. exists e, v. rewrite C, (Hflag eq_refl).
           repeat split; [apply in_or_app; right; now left|assumption].
        -- rewrite Hx, (Hnflag eq_refl). destruct (hslot st x) as [|i|]; [assumption| |assumption].
           destruct Hw as (Hi & e' & v' & Hin & Hev & Hv). destruct S1 as [L1 S1]. split; [lia|].
           exists e', v'. rewrite (proj1 (S1 i Hi)). repeat split; [apply in_or_app; now left|assumption|assumption].
      * rewrite Hx. destruct (hslot st x) as [|i|]; [assumption| |assumption].
        destruct Hw as (Hi & e' & v' & Hin & Hev & Hv). destruct S1 as [L1 S1]. split; [lia|].
        exists e', v'. rewrite (proj1 (S1 i Hi)). repeat split; [apply in_or_app; now left|assumption|assumption].
    + (* link / name events: only the resolver moves *)
      assert (Hstep : exists r', pstep NSFull st e = mk_ps (record (ps_hist st) e) r' (ps_slots st) /\ wf_rs r' /\ stable (ps_res st) r').
      { destruct Hok as (Hwf & _). destruct e; try discriminate Es; unfold pstep; cbn [with_res ps_res ps_slots].
        - destruct (record_link_spec (ps_res st) parent KTree name child Hwf) as [A B]. eexists; split; [reflexivity|split; assumption].
        - destruct (record_link_spec (ps_res st) o KCommit [] tree Hwf) as [A B]. eexists; split; [reflexivity|split; assumption].
        - destruct walk.
          + destruct (record_name_spec (ps_res st) name o Hwf) as (A & B & _). eexists; split; [reflexivity|split; assumption].
          + eexists; split; [reflexivity|split; [assumption|apply stable_refl]]. }
      destruct Hstep as (r' & Ep & Wr & Sr). rewrite Ep.
      split.
      { pose proof (slots_ok_res st r' Hok Wr Sr) as H. destruct H as (A & B & C & D). split; [assumption|]. split; [assumption|]. split; assumption. }
      intros x. specialize (Hw x). unfold witness_full_ok in *.
      change (hslot (mk_ps (record (ps_hist st) e) r' (ps_slots st)) x) with (hslot st x).
      cbn [ps_res ps_hist]. rewrite slot_val_record.
      assert (Env : ev_val x e = None) by (destruct e; try discriminate Es; destruct x; reflexivity). rewrite Env.
      destruct (hslot st x) as [|i|]; [assumption| |assumption].
      destruct Hw as (Hi & e' & v' & Hin & Hev & Hv). destruct Sr as [L1 S1]. split; [lia|].
      exists e', v'. rewrite (proj1 (S1 i Hi)). repeat split; [apply in_or_app; now left|assumption|assumption].
Qed.
