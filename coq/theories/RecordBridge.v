(* RecordBridge.v — tie T for HistorySize.recordBlob / recordTree / recordCommit /
   recordTag / recordReference (sizes/sizes.go): the functions generated from
   the Go source on every run (gen/RecordGen.v; a setPath call becomes the
   boolean flag set_<slot>) equal the hand-written `record` of Scan.v on the
   numbers, and raise exactly the setPath flags that PathResolver.pstep /
   ResolveProofs.sets_of use. *)
From GS Require Import GoSem Counts CountsBridge Repo Deferred Scan SizesBridge PathResolver.
From GSGen Require Import CountsGen SizesGen RecordGen.
Open Scope N_scope.

Definition to_hgen (h : hist) : HistorySize :=
  mk_HistorySize (h_ncommits h) (h_scommits h) (h_maxcommit h) (h_depth h) (h_maxparents h)
                 (h_ntrees h) (h_strees h) (h_nentries h) (h_maxentries h)
                 (h_nblobs h) (h_sblobs h) (h_maxblob h)
                 (h_ntags h) (h_tagdepth h) (h_nrefs h)
                 (h_xdepth h) (h_xlen h) (h_xtrees h) (h_xblobs h) (h_xbsize h) (h_xlinks h) (h_xsubs h).

Definition hist_ok (h : hist) : Prop :=
  in32 (h_ncommits h) /\ in64 (h_scommits h) /\ in32 (h_ntrees h) /\ in64 (h_strees h) /\ in64 (h_nentries h) /\
  in32 (h_nblobs h) /\ in64 (h_sblobs h) /\ in32 (h_ntags h) /\ in32 (h_nrefs h).

Ltac rec_unfold :=
  cbv beta iota zeta delta
    [HistorySize_recordBlob HistorySize_recordTree HistorySize_recordCommit HistorySize_recordTag HistorySize_recordReference
     to_hgen to_gen record mx mxp fst snd
     set_HistorySize_UniqueCommitCount set_HistorySize_UniqueCommitSize set_HistorySize_MaxCommitSize
     set_HistorySize_MaxHistoryDepth set_HistorySize_MaxParentCount set_HistorySize_UniqueTreeCount
     set_HistorySize_UniqueTreeSize set_HistorySize_UniqueTreeEntries set_HistorySize_MaxTreeEntries
     set_HistorySize_UniqueBlobCount set_HistorySize_UniqueBlobSize set_HistorySize_MaxBlobSize
     set_HistorySize_UniqueTagCount set_HistorySize_MaxTagDepth set_HistorySize_ReferenceCount
     set_HistorySize_MaxPathDepth set_HistorySize_MaxPathLength set_HistorySize_MaxExpandedTreeCount
     set_HistorySize_MaxExpandedBlobCount set_HistorySize_MaxExpandedBlobSize set_HistorySize_MaxExpandedLinkCount
     set_HistorySize_MaxExpandedSubmoduleCount
     HistorySize_UniqueCommitCount HistorySize_UniqueCommitSize HistorySize_MaxCommitSize HistorySize_MaxHistoryDepth
     HistorySize_MaxParentCount HistorySize_UniqueTreeCount HistorySize_UniqueTreeSize HistorySize_UniqueTreeEntries
     HistorySize_MaxTreeEntries HistorySize_UniqueBlobCount HistorySize_UniqueBlobSize HistorySize_MaxBlobSize
     HistorySize_UniqueTagCount HistorySize_MaxTagDepth HistorySize_ReferenceCount HistorySize_MaxPathDepth
     HistorySize_MaxPathLength HistorySize_MaxExpandedTreeCount HistorySize_MaxExpandedBlobCount
     HistorySize_MaxExpandedBlobSize HistorySize_MaxExpandedLinkCount HistorySize_MaxExpandedSubmoduleCount
     TreeSize_MaxPathDepth TreeSize_MaxPathLength TreeSize_ExpandedTreeCount TreeSize_ExpandedBlobCount
     TreeSize_ExpandedBlobSize TreeSize_ExpandedLinkCount TreeSize_ExpandedSubmoduleCount
     CommitSize_MaxAncestorDepth BlobSize_Size TagSize_TagDepth
     h_ncommits h_scommits h_maxcommit h_depth h_maxparents h_ntrees h_strees h_nentries h_maxentries
     h_nblobs h_sblobs h_maxblob h_ntags h_tagdepth h_nrefs h_xdepth h_xlen h_xtrees h_xblobs h_xbsize h_xlinks h_xsubs
     t_depth t_len t_trees t_blobs t_bsize t_links t_subs].

Ltac rec_arith :=
  rewrite ?inc32_bridge, ?inc64_bridge by side;
  rewrite ?adjnec32_bridge, ?adjnec64_bridge, ?adjposs32_bridge;
  try reflexivity.

Lemma if_flag (b : bool) : (if b then true else false) = b.
Proof. destruct b; reflexivity. Qed.

(* recordBlob: numbers and the one setPath flag *)
Lemma recordBlob_bridge h o size : hist_ok h -> in32 size ->
  HistorySize_recordBlob (to_hgen h) (mk_BlobSize size) =
    (to_hgen (record h (EvBlob o size)), snd (adj_max_nec (h_maxblob h) size)).
Proof.
  intros (A1 & A2 & A3 & A4 & A5 & A6 & A7 & A8 & A9) Hs. destruct h as [n1 n2 n3 n4 n5 n6 n7 n8 n9 n10 n11 n12 n13 n14 n15 n16 n17 n18 n19 n20 n21 n22]. cbn [h_ncommits h_scommits h_ntrees h_strees h_nentries h_nblobs h_sblobs h_ntags h_nrefs] in *.
  rec_unfold. rewrite if_flag. rec_arith.
Qed.

Lemma recordTree_bridge h o ts size entries : hist_ok h -> in32 size -> in32 entries ->
  HistorySize_recordTree (to_hgen h) (to_gen ts) size entries =
    (to_hgen (record h (EvTree o ts size entries)),
     snd (adj_max_nec (h_maxentries h) entries), snd (adj_max_nec (h_xdepth h) (t_depth ts)),
     snd (adj_max_nec (h_xlen h) (t_len ts)), snd (adj_max_nec (h_xtrees h) (t_trees ts)),
     snd (adj_max_nec (h_xblobs h) (t_blobs ts)), snd (adj_max_nec (h_xbsize h) (t_bsize ts)),
     snd (adj_max_nec (h_xlinks h) (t_links ts)), snd (adj_max_nec (h_xsubs h) (t_subs ts))).
Proof.
  intros (A1 & A2 & A3 & A4 & A5 & A6 & A7 & A8 & A9) Hs He. destruct h as [n1 n2 n3 n4 n5 n6 n7 n8 n9 n10 n11 n12 n13 n14 n15 n16 n17 n18 n19 n20 n21 n22], ts as [d1 d2 d3 d4 d5 d6 d7].
  cbn [h_ncommits h_scommits h_ntrees h_strees h_nentries h_nblobs h_sblobs h_ntags h_nrefs] in *.
  rec_unfold. rewrite !if_flag. rec_arith.
Qed.

Lemma recordCommit_bridge h o depth size np : hist_ok h -> in32 size ->
  HistorySize_recordCommit (to_hgen h) (mk_CommitSize depth) size np =
    (to_hgen (record h (EvCommit o depth size np)),
     snd (adj_max_poss (h_maxcommit h) size), snd (adj_max_poss (h_maxparents h) np)).
Proof.
  intros (A1 & A2 & A3 & A4 & A5 & A6 & A7 & A8 & A9) Hs. destruct h as [n1 n2 n3 n4 n5 n6 n7 n8 n9 n10 n11 n12 n13 n14 n15 n16 n17 n18 n19 n20 n21 n22].
  cbn [h_ncommits h_scommits h_ntrees h_strees h_nentries h_nblobs h_sblobs h_ntags h_nrefs] in *.
  rec_unfold. rewrite !if_flag. rec_arith.
Qed.

Lemma recordTag_bridge h o depth size : hist_ok h ->
  HistorySize_recordTag (to_hgen h) (mk_TagSize depth) size =
    (to_hgen (record h (EvTag o depth size)), snd (adj_max_nec (h_tagdepth h) depth)).
Proof.
  intros (A1 & A2 & A3 & A4 & A5 & A6 & A7 & A8 & A9). destruct h as [n1 n2 n3 n4 n5 n6 n7 n8 n9 n10 n11 n12 n13 n14 n15 n16 n17 n18 n19 n20 n21 n22].
  cbn [h_ncommits h_scommits h_ntrees h_strees h_nentries h_nblobs h_sblobs h_ntags h_nrefs] in *.
  rec_unfold. rewrite if_flag. rec_arith.
Qed.

Lemma recordReference_bridge h name o w groups : hist_ok h ->
  HistorySize_recordReference (to_hgen h) = to_hgen (record h (EvRef name o w true groups)).
Proof.
  intros (A1 & A2 & A3 & A4 & A5 & A6 & A7 & A8 & A9). destruct h as [n1 n2 n3 n4 n5 n6 n7 n8 n9 n10 n11 n12 n13 n14 n15 n16 n17 n18 n19 n20 n21 n22].
  cbn [h_ncommits h_scommits h_ntrees h_strees h_nentries h_nblobs h_sblobs h_ntags h_nrefs] in *.
  rec_unfold. rec_arith.
Qed.
