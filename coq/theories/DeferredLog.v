(* DeferredLog.v — every listener firing logged by the deferred machine is a true
   child entry of its parent, and every finalised node is a node: a simple
   invariant of the machine, independent of the big invariant of Deferred.v. *)
From GS Require Import GoSem Deferred.
Open Scope N_scope.

Section Log.
Variables V C P : Type.
Variable apply : C -> V -> V.
Variable init : V.
Variable contrib : P -> V -> C.
Variable nodes : N -> option (list (dentry C P)).

Notation st := (st V P).
Notation rec := (rec V P).

Definition edge (p c : N) (pl : P) : Prop := exists es, nodes p = Some es /\ In (Child C P c pl) es.

Definition log_ok (l : list (levent V P)) : Prop :=
  forall e, In e l -> match e with
                      | LFire _ _ p c pl => edge p c pl
                      | LFin _ _ n _ => nodes n <> None
                      end.

Definition lok (s : st) : Prop :=
  (forall c r p pl, recs _ _ s c = Some r -> In (p, pl) (r_lst _ _ r) -> edge p c pl) /\ log_ok (log _ _ s).

Definition qok (q : list (item V P)) : Prop := forall p c pl v, In (p, c, pl, v) q -> edge p c pl.

Lemma fupd_same {A} (f : fmap A) k v : fupd f k v k = v.
Proof. unfold fupd. now rewrite N.eqb_refl. Qed.
Lemma fupd_other {A} (f : fmap A) k v k' : k' <> k -> fupd f k v k' = f k'.
Proof. intros H. unfold fupd. destruct (N.eqb_spec k' k); [contradiction|reflexivity]. Qed.

Lemma log_ok_app l1 l2 : log_ok l1 -> log_ok l2 -> log_ok (l1 ++ l2).
Proof. intros H1 H2 e He. apply in_app_or in He. destruct He as [He|He]; [exact (H1 e He)|exact (H2 e He)]. Qed.

Lemma lok_add_listener s c p pl : lok s -> edge p c pl -> lok (add_listener V P init s c (p, pl)).
Proof.
  intros [H1 H2] He. split; [|exact H2]. intros c' r' p' pl' Hr Hin. unfold add_listener in Hr. cbn [recs] in Hr.
  destruct (N.eq_dec c' c) as [->|Hne].
  - rewrite fupd_same in Hr. inversion Hr; subst. cbn [r_lst] in Hin. apply in_app_or in Hin. destruct Hin as [Hin|[E|[]]].
    + unfold get_rec in Hin. destruct (recs V P s c) as [r0|] eqn:E0; [eapply H1; eauto|destruct Hin].
    + inversion E; subst. exact He.
  - rewrite fupd_other in Hr by assumption. eapply H1; eauto.
Qed.

Lemma lok_scan_entries t es0 : nodes t = Some es0 -> forall es val pend s, (forall e, In e es -> In e es0) -> lok s ->
  lok (snd (scan_entries V C P apply init contrib t es val pend s)).
Proof.
  intros Ht. induction es as [|e es IH]; intros val pend s Hsub Hl; [exact Hl|].
  cbn [scan_entries]. destruct e as [c|n pl].
  - apply IH; [intros; apply Hsub; now right|assumption].
  - destruct (done V P s n).
    + apply IH; [intros; apply Hsub; now right|assumption].
    + apply IH; [intros; apply Hsub; now right|]. apply lok_add_listener; [assumption|].
      exists es0. split; [assumption|]. apply Hsub. now left.
Qed.

Lemma scan_entries_recs_t t : forall es val pend s,
  log _ _ (snd (scan_entries V C P apply init contrib t es val pend s)) = log _ _ s.
Proof.
  induction es as [|e es IH]; intros val pend s; [reflexivity|]. cbn [scan_entries]. destruct e as [c|n pl]; [apply IH|].
  destruct (done V P s n); [apply IH|]. rewrite IH. reflexivity.
Qed.

Lemma lok_set_rec s p r : lok s -> (forall p' pl, In (p', pl) (r_lst _ _ r) -> edge p' p pl) -> lok (set_rec V P s p r).
Proof.
  intros [H1 H2] Hr. split; [|exact H2]. intros c r' p' pl' Hrc Hin. unfold set_rec in Hrc. cbn [recs] in Hrc.
  destruct (N.eq_dec c p) as [->|Hne].
  - rewrite fupd_same in Hrc. inversion Hrc; subst. now apply Hr.
  - rewrite fupd_other in Hrc by assumption. eapply H1; eauto.
Qed.

Lemma lok_finalize s n r : lok s -> nodes n <> None -> (forall p pl, In (p, pl) (r_lst _ _ r) -> edge p n pl) ->
  lok (fst (finalize V P s n r)) /\ qok (snd (finalize V P s n r)).
Proof.
  intros [H1 H2] Hn Hr. unfold finalize. cbn [fst snd]. split.
  - split.
    + intros c r' p pl Hrc Hin. cbn [recs] in Hrc. destruct (N.eq_dec c n) as [->|Hne].
      * rewrite fupd_same in Hrc. discriminate.
      * rewrite fupd_other in Hrc by assumption. eapply H1; eauto.
    + cbn [log]. apply log_ok_app; [assumption|]. intros e [<-|[]]. exact Hn.
  - intros p c pl v Hin. apply in_map_iff in Hin. destruct Hin as ([p' pl'] & E & Hin). inversion E; subst. now apply Hr.
Qed.

Lemma lok_drain fuel : forall q s s', lok s -> qok q -> drain V C P apply contrib fuel q s = Some s' -> lok s'.
Proof.
  induction fuel as [|f IH]; intros q s s' Hl Hq Hd.
  - destruct q as [|[[[p c] pl] v] q']; cbn [drain] in Hd; [inversion Hd; subst; assumption|discriminate].
  - destruct q as [|[[[p c] pl] v] q']; cbn [drain] in Hd; [inversion Hd; subst; assumption|].
    destruct (recs V P s p) as [r|] eqn:Er; [|discriminate].
    set (r' := mkrec V P (r_init _ _ r) (apply (contrib pl v) (r_val _ _ r)) (pred (r_pending _ _ r)) (r_lst _ _ r)) in *.
    assert (He : edge p c pl) by (eapply Hq; now left).
    assert (Hq' : qok q') by (intros p0 c0 pl0 v0 Hin; eapply Hq; right; eassumption).
    assert (Hl1 : lok (fire_rec V P s p c pl r')).
    { destruct Hl as [H1 H2]. split.
      - intros c0 r0 p0 pl0 Hrc Hin. unfold fire_rec in Hrc. cbn [recs] in Hrc. destruct (N.eq_dec c0 p) as [->|Hne].
        + rewrite fupd_same in Hrc. inversion Hrc; subst. cbn [r_lst] in Hin. eapply H1; eauto.
        + rewrite fupd_other in Hrc by assumption. eapply H1; eauto.
      - unfold fire_rec. cbn [log]. apply log_ok_app; [assumption|]. intros e [<-|[]]. exact He. }
    destruct (Nat.eqb (r_pending _ _ r') 0).
    + assert (Hn : nodes p <> None) by (destruct He as (es & E & _); congruence).
      assert (Hr : forall p0 pl0, In (p0, pl0) (r_lst _ _ r') -> edge p0 p pl0).
      { intros p0 pl0 Hin. destruct Hl as [H1 _]. cbn [r_lst r'] in Hin. eapply H1; eauto. }
      destruct (lok_finalize _ p r' Hl1 Hn Hr) as [A B].
      eapply IH; [exact A| |exact Hd]. intros p0 c0 pl0 v0 Hin. apply in_app_or in Hin. destruct Hin; [eapply B|eapply Hq']; eassumption.
    + eapply IH; [exact Hl1|exact Hq'|exact Hd].
Qed.

Lemma get_rec_lst s t p pl : lok s -> In (p, pl) (r_lst _ _ (get_rec V P init s t)) -> edge p t pl.
Proof.
  intros [H1 _] Hin. unfold get_rec in Hin. destruct (recs V P s t) as [r|] eqn:E; [eapply H1; eauto|destruct Hin].
Qed.

Lemma lok_deliver fuel t es s s' : nodes t = Some es -> lok s ->
  deliver V C P apply init contrib fuel t es s = Some s' -> lok s'.
Proof.
  intros Ht Hl Hd. unfold deliver in Hd.
  set (r0 := get_rec V P init s t) in *.
  set (s0 := set_rec V P s t (mkrec V P true init 0 (r_lst _ _ r0))) in *.
  assert (Hl0 : lok s0) by (apply lok_set_rec; [assumption|]; intros p pl Hin; cbn [r_lst] in Hin; eapply get_rec_lst; eauto).
  pose proof (lok_scan_entries t es Ht es init 0%nat s0 (fun _ H => H) Hl0) as Hl1.
  destruct (scan_entries V C P apply init contrib t es init 0 s0) as [[val pend] s1]. cbn [snd] in Hl1.
  set (r1 := mkrec V P true val pend (r_lst _ _ (get_rec V P init s1 t))) in *.
  assert (Hr1 : forall p pl, In (p, pl) (r_lst _ _ r1) -> edge p t pl) by (intros p pl Hin; cbn [r_lst r1] in Hin; eapply get_rec_lst; eauto).
  assert (Hl2 : lok (set_rec V P s1 t r1)) by (apply lok_set_rec; assumption).
  destruct (Nat.eqb pend 0).
  - assert (Hn : nodes t <> None) by congruence.
    destruct (lok_finalize _ t r1 Hl2 Hn Hr1) as [A B]. eapply lok_drain; eassumption.
  - inversion Hd; subst. assumption.
Qed.

Lemma lok_empty : lok (empty_st V P).
Proof. split; [intros c r p pl H; discriminate H|intros e H; destruct H]. Qed.

End Log.
