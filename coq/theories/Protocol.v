(* Protocol.v — the git invocations of one scanning run (git/git.go:72-172,
   git/gitconfig.go, git/ref_iter.go, git/obj_resolver.go, git/obj_iter.go,
   git/batch_obj_iter.go, git-sizer.go), the way each answer is consumed, and
   the fault model of property C10. *)
From Coq Require Import String.
From GS Require Import GoSem Text Options.
Open Scope N_scope.

Inductive ikind :=
| KGitDir | KGitPath | KConfigList | KConfigGet (key : bytes) (ty : bytes)
| KForEachRef | KRevParseVerify (spec : bytes) | KRevList | KCatFileCheck | KCatFileBatch.

Record invocation := mk_inv {
  i_kind : ikind;
  i_argv : list bytes;            (* arguments after the global options *)
  i_noreplace : bool;             (* --no-replace-objects -c core.useReplaceRefs=false -c advice.graftFileDeprecated=false *)
  i_env : bool                    (* GIT_DIR=<resolved> and GIT_GRAFT_FILE=/dev/null in the environment *)
}.

Definition s := str.

(* every command built by Repository.GitCommand *)
Definition gitcmd (k : ikind) (argv : list bytes) : invocation := mk_inv k argv true true.

Definition argv_of (k : ikind) : list bytes :=
  match k with
  | KGitDir => [s "-C"; s "."; s "rev-parse"; s "--git-dir"]
  | KGitPath => [s "rev-parse"; s "--git-path"; s "shallow"]
  | KConfigList => [s "config"; s "--list"; s "-z"]
  | KConfigGet key ty => match ty with [] => [s "config"; s "--get"; key] | _ => [s "config"; s "--get"; ty; key] end
  | KForEachRef => [s "for-each-ref"; s "--format=%(objectname) %(objecttype) %(objectsize) %(refname)"]
  | KRevParseVerify spec => [s "rev-parse"; s "--verify"; s "--end-of-options"; spec]
  | KRevList => [s "rev-list"; s "--objects"; s "--stdin"; s "--date-order"]
  | KCatFileCheck => [s "cat-file"; s "--batch-check"; s "--buffer"]
  | KCatFileBatch => [s "cat-file"; s "--batch"; s "--buffer"]
  end.

Definition inv_of (k : ikind) : invocation :=
  match k with
  | KGitDir => mk_inv k (argv_of k) false false      (* NewRepositoryFromPath: plain `git -C . rev-parse --git-dir` *)
  | _ => gitcmd k (argv_of k)
  end.

(* which gitconfig keys are consulted, from the parsed option state *)
Definition config_gets (st : pstate) : list ikind :=
  (if p_jv_changed st then [] else if p_json st then [KConfigGet (s "sizer.jsonVersion") (s "--int")] else [])
  ++ (if p_thr_changed st then [] else [KConfigGet (s "sizer.threshold") []])
  ++ (if p_names_changed st then [] else [KConfigGet (s "sizer.names") []])
  ++ (if p_progress_changed st then [] else [KConfigGet (s "sizer.progress") (s "--bool")]).

(* the invocations of a complete, successful run, in order *)
Definition trace (ngroups : nat) (st : pstate) (roots : list bytes) : list invocation :=
  map inv_of
    ([KGitDir; KGitPath; KConfigList] ++ repeat KConfigList ngroups ++ config_gets st ++ [KForEachRef]
     ++ map KRevParseVerify roots ++ [KRevList; KCatFileCheck; KCatFileBatch]).

(* ---- C17: only read-only plumbing ---- *)
Definition readonly_kind (k : ikind) : bool := true.   (* every constructor of ikind is a read-only command: *)
Definition readonly_argv (a : list bytes) : bool :=
  match a with
  | x :: rest =>
      (beqb x (s "-C") && match rest with _ :: y :: _ => beqb y (s "rev-parse") | _ => false end)
      || beqb x (s "rev-parse") || beqb x (s "for-each-ref") || beqb x (s "rev-list") || beqb x (s "cat-file")
      || (beqb x (s "config") && match rest with y :: _ => beqb y (s "--list") || beqb y (s "--get") | _ => false end)
  | [] => false
  end.

(* ---- C10: consumption of answers ---- *)
(* an answer: the bytes written to stdout and how the process ended (0 = success) *)
Record answer := mk_ans { a_out : bytes; a_status : N }.

(* what the consumer of an invocation accepts: `git config --get` exiting 1 means "unset";
   everything else requires status 0 (cmd.Output() / pipeline Wait()) *)
Definition status_ok (k : ikind) (a : answer) : bool :=
  match k with
  | KConfigGet _ _ => (a_status a =? 0) || (a_status a =? 1)
  | _ => a_status a =? 0
  end.

(* a fault: the answer of invocation number [f_at] is cut after [f_cut] bytes
   and the process ends with the non-zero status [f_status] (exit code or 128+signal) *)
Record fault := mk_fault { f_at : nat; f_cut : nat; f_status : N }.

Definition apply_fault (f : option fault) (i : nat) (a : answer) : answer :=
  match f with
  | Some ft => if Nat.eqb (f_at ft) i then mk_ans (firstn (f_cut ft) (a_out a)) (f_status ft) else a
  | None => a
  end.

Inductive outcome := Report (b : bytes) | Failure.

(* a run: every answer is consumed and its status checked; the report is a
   function [render] of the accepted answers *)
Fixpoint consume (ks : list ikind) (answers : list answer) (f : option fault) (i : nat) (acc : list answer) : option (list answer) :=
  match ks, answers with
  | [], _ => Some (rev acc)
  | k :: ks', a :: answers' =>
      let a' := apply_fault f i a in
      if status_ok k a' then consume ks' answers' f (S i) (a' :: acc) else None
  | _ :: _, [] => None
  end.

Definition run_with (ks : list ikind) (answers : list answer) (render : list answer -> bytes) (f : option fault) : outcome :=
  match consume ks answers f 0 [] with
  | Some acc => Report (render acc)
  | None => Failure
  end.
