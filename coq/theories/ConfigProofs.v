From Coq Require Import String.
From GS Require Import GoSem Text Parsers ConfigParse.
From GSGen Require Import GitConfigGen.
Open Scope N_scope.

Definition wf_rec (r : cfg_rec) : Prop :=
  ~ In NUL (fst r) /\ ~ In LF (fst r) /\ match snd r with Some v => ~ In NUL v | None => True end.

Lemma take_entry_app e rest : ~ In NUL e -> take_entry (e ++ NUL :: rest) = Some (e, rest).
Proof.
  induction e as [|c e IH]; intros H; simpl.
  - reflexivity.
  - destruct (N.eqb_spec c NUL) as [->|Hne]; [exfalso; apply H; now left|].
    rewrite IH by (intros Hin; apply H; now right). reflexivity.
Qed.

Lemma split_lf_key k : ~ In LF k -> split_lf k = (k, None).
Proof.
  induction k as [|c k IH]; intros H; simpl; [reflexivity|].
  destruct (N.eqb_spec c LF) as [->|Hne]; [exfalso; apply H; now left|].
  rewrite IH by (intros Hin; apply H; now right). reflexivity.
Qed.

Lemma split_lf_kv k v : ~ In LF k -> split_lf (k ++ LF :: v) = (k, Some v).
Proof.
  induction k as [|c k IH]; intros H; simpl.
  - reflexivity.
  - destruct (N.eqb_spec c LF) as [->|Hne]; [exfalso; apply H; now left|].
    rewrite IH by (intros Hin; apply H; now right). reflexivity.
Qed.

Definition norm_rec (r : cfg_rec) : bytes * bytes := (fst r, match snd r with Some v => v | None => [] end).

Lemma parse_config_fuel_ser rs : forall fuel, (length rs < fuel)%nat -> Forall wf_rec rs ->
  parse_config_fuel fuel (ser_config rs) = Ok (map norm_rec rs).
Proof.
  induction rs as [|[k v] rs IH]; intros fuel Hf Hwf.
  - destruct fuel; [lia|]. reflexivity.
  - destruct fuel as [|f]; [simpl in Hf; lia|].
    inversion Hwf as [|? ? (H1 & H2 & H3) Hrs]; subst. cbn [fst snd] in *.
    cbn [parse_config_fuel ser_config flat_map]. fold (ser_config rs).
    unfold ser_rec. cbn [fst snd].
    assert (E : (k ++ match v with Some v0 => LF :: v0 | None => [] end ++ [NUL]) ++ ser_config rs
                = (k ++ match v with Some v0 => LF :: v0 | None => [] end) ++ NUL :: ser_config rs).
    { rewrite <- !app_assoc. reflexivity. }
    rewrite E.
    destruct ((k ++ match v with Some v0 => LF :: v0 | None => [] end) ++ NUL :: ser_config rs) eqn:Es.
    { destruct k; destruct v; discriminate. }
    rewrite <- Es. rewrite take_entry_app.
    + destruct v as [v|].
      * rewrite split_lf_kv by assumption. rewrite IH; [reflexivity|simpl in Hf; lia|assumption].
      * rewrite app_nil_r, split_lf_key by assumption. rewrite IH; [reflexivity|simpl in Hf; lia|assumption].
    + intros Hin. apply in_app_or in Hin. destruct Hin as [Hin|Hin]; [contradiction|].
      destruct v as [v|]; [|destruct Hin]. destruct Hin as [E1|Hin]; [discriminate|contradiction].
Qed.

(* parse (serialise records) = the records, a value-less key reading as "" *)
Theorem config_roundtrip rs : Forall wf_rec rs -> parse_config (ser_config rs) = Ok (map norm_rec rs).
Proof.
  intros H. unfold parse_config. apply parse_config_fuel_ser; [|assumption].
  assert (G : (length rs <= length (ser_config rs))%nat).
  { clear H. induction rs as [|r rs IH]; simpl; [lia|]. rewrite app_length.
    assert (1 <= length (ser_rec r))%nat by (unfold ser_rec; rewrite !app_length; simpl; lia). lia. }
  lia.
Qed.

(* before the fix a value-less key swallowed the following entry *)
Lemma config_old_refuted :
  exists rs, Forall wf_rec rs /\ parse_config_old (ser_config rs) <> Ok (map norm_rec rs).
Proof.
  exists [(str "foo.bar", None); (str "refgroup.mine.include", Some (str "refs/heads"))].
  split.
  - repeat constructor; cbn; intuition discriminate.
  - vm_compute. discriminate.
Qed.

Lemma nth_last (l : list N) : l <> [] -> nth_error l (length l - 1) = Some (List.last l 0).
Proof.
  induction l as [|a l IH]; intros H; [congruence|]. destruct l as [|b l']; [reflexivity|].
  replace (length (a :: b :: l') - 1)%nat with (S (length (b :: l') - 1)) by (simpl; lia).
  cbn [nth_error]. rewrite IH by discriminate. reflexivity.
Qed.

Lemma has_suffix_last (l : list N) c : l <> [] -> has_suffix l [c] = (List.last l 0 =? c).
Proof.
  intros H. unfold has_suffix. cbn [rev app]. destruct l as [|a l'] using rev_ind; [congruence|].
  rewrite rev_app_distr, last_last. cbn [rev app has_prefix]. destruct (a =? c); [destruct (rev l'); reflexivity|reflexivity].
Qed.

(* tie T: the generated configKeyMatchesPrefix equals the hand-written one *)
Theorem key_prefix_bridge key prefix :
  configKeyMatchesPrefix key prefix = Some (key_matches_prefix key prefix).
Proof.
  unfold configKeyMatchesPrefix, key_matches_prefix.
  destruct prefix as [|c p']; [reflexivity|]. set (prefix := c :: p').
  assert (Hne : prefix <> []) by discriminate.
  change (beqb prefix []) with false. cbn [obind].
  destruct (has_prefix key prefix) eqn:Hp; cbn [negb]; [|reflexivity].
  apply has_prefix_spec in Hp. destruct Hp as (rest & ->).
  assert (Hsub : isub (blen prefix) 1 = Some (blen prefix - 1)).
  { unfold isub. destruct (1 <=? blen prefix) eqn:E; [reflexivity|]. unfold blen, prefix in E. simpl length in E. lia. }
  rewrite Hsub. cbn [obind].
  assert (Hlast : bidx prefix (blen prefix - 1) = Some (List.last prefix 0)).
  { unfold bidx, blen. replace (N.to_nat (N.of_nat (length prefix) - 1)) with (length prefix - 1)%nat by lia.
    now apply nth_last. }
  rewrite Hlast. cbn [obind].
  rewrite (has_suffix_last prefix 46 Hne). destruct (List.last prefix 0 =? 46).
  - unfold bfrom, blen. rewrite app_length.
    replace (N.of_nat (length prefix) <=? N.of_nat (length prefix + length rest)) with true by lia.
    rewrite Nat2N.id. reflexivity.
  - unfold bidx, blen. rewrite Nat2N.id, app_length.
    destruct rest as [|x rest'].
    + cbn [length]. rewrite Nat.add_0_r, Nat.eqb_refl, N.eqb_refl. reflexivity.
    + cbn [length].
      replace (N.of_nat (length prefix + S (length rest')) =? N.of_nat (length prefix)) with false by lia.
      replace ((length prefix + S (length rest'))%nat =? length prefix)%nat with false by (symmetry; apply Nat.eqb_neq; lia).
      rewrite nth_error_app2, Nat.sub_diag by lia. cbn [nth_error obind].
      destruct (x =? 46); [|reflexivity].
      unfold bfrom, blen. rewrite app_length. cbn [length].
      replace (N.of_nat (length prefix) + 1 <=? N.of_nat (length prefix + S (length rest'))) with true by lia.
      replace (N.to_nat (N.of_nat (length prefix) + 1)) with (S (length prefix)) by lia. reflexivity.
Qed.

(* entries returned for prefix p (not ending in '.') are exactly those with
   key p or p.<rest>, with the prefix and the dot stripped *)
Theorem key_prefix_rule key prefix rest : prefix <> [] -> (forall q, prefix <> q ++ [46]) ->
  (key_matches_prefix key prefix = (true, rest) <->
   (key = prefix /\ rest = []) \/ key = prefix ++ 46 :: rest).
Proof.
  intros Hne Hnd. unfold key_matches_prefix. destruct prefix as [|c p']; [congruence|]. set (prefix := c :: p') in *.
  assert (Hs : has_suffix prefix [46] = false).
  { destruct (has_suffix prefix [46]) eqn:E; [|reflexivity]. apply has_suffix_spec in E. destruct E as (q & Hq). exfalso. eapply Hnd; eauto. }
  rewrite Hs. destruct (has_prefix key prefix) eqn:Hp; cbn [negb].
  - apply has_prefix_spec in Hp. destruct Hp as (tl & ->). rewrite app_length.
    destruct tl as [|x tl'].
    + rewrite app_nil_r. cbn [length]. rewrite Nat.add_0_r, Nat.eqb_refl. split.
      * intros E. inversion E. left. auto.
      * intros [[_ ->]|E]; [reflexivity|]. exfalso.
        assert (length prefix = length (prefix ++ 46 :: rest)) by (rewrite <- E; reflexivity). rewrite app_length in H. simpl in H. lia.
    + cbn [length]. replace ((length prefix + S (length tl'))%nat =? length prefix)%nat with false by (symmetry; apply Nat.eqb_neq; lia).
      rewrite nth_error_app2, Nat.sub_diag by lia. cbn [nth_error].
      destruct (N.eqb_spec x 46) as [->|Hx].
      * replace (S (length prefix)) with (length (prefix ++ [46])) by (rewrite app_length; simpl; lia).
        replace (prefix ++ 46 :: tl') with ((prefix ++ [46]) ++ tl') by (rewrite <- app_assoc; reflexivity).
        rewrite skipn_app, Nat.sub_diag, skipn_all. cbn [skipn app]. split.
        -- intros E. inversion E. right. rewrite <- app_assoc. reflexivity.
        -- intros [[E _]|E].
           ++ exfalso. assert (length ((prefix ++ [46]) ++ tl') = length prefix) by (rewrite E; reflexivity).
              rewrite !app_length in H. simpl in H. lia.
           ++ rewrite <- app_assoc in E. apply app_inv_head in E. inversion E. reflexivity.
      * split; [discriminate|]. intros [[E _]|E].
        -- exfalso. assert (length (prefix ++ x :: tl') = length prefix) by (rewrite E; reflexivity).
           rewrite app_length in H. simpl in H. lia.
        -- apply app_inv_head in E. inversion E. congruence.
  - split; [discriminate|]. intros [[E _]|E]; exfalso.
    + subst key. assert (has_prefix prefix prefix = true) by (apply has_prefix_spec; exists []; now rewrite app_nil_r). congruence.
    + subst key. assert (has_prefix (prefix ++ 46 :: rest) prefix = true) by (apply has_prefix_spec; eauto). congruence.
Qed.
