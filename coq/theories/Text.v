(* Text.v — byte-string utilities shared by the parsers, the renderers and the
   command dispatcher: decimal and hexadecimal conversion, splitting, joining. *)
From GS Require Import GoSem.
Open Scope N_scope.

(* ---- decimal ---- *)
(* fmt "%d" of an unsigned value: most significant digit first.  The fuel is
   the bit size of n plus one, which always exceeds its number of digits. *)
Fixpoint digits (fuel : nat) (n : N) (acc : bytes) : bytes :=
  match fuel with
  | O => acc
  | S f =>
      let acc' := (48 + n mod 10) :: acc in
      if n <? 10 then acc' else digits f (n / 10) acc'
  end.
Definition dec (n : N) : bytes := digits (S (N.size_nat n)) n [].

Lemma digits_length f : forall n acc k, n < 10 ^ N.of_nat k -> (1 <= k)%nat ->
  (length (digits f n acc) <= k + length acc)%nat.
Proof.
  induction f as [|f IH]; intros n acc k Hn Hk; simpl; [lia|].
  destruct (n <? 10) eqn:E; simpl; [lia|].
  apply N.ltb_ge in E.
  destruct k as [|[|k]]; [lia| |].
  - simpl in Hn. lia.
  - specialize (IH (n / 10) ((48 + n mod 10) :: acc) (S k)).
    simpl length in IH. assert (Hd : n / 10 < 10 ^ N.of_nat (S k)).
    { replace (N.of_nat (S (S k))) with (N.succ (N.of_nat (S k))) in Hn by lia.
      rewrite N.pow_succ_r' in Hn. apply N.div_lt_upper_bound; lia. }
    specialize (IH Hd ltac:(lia)). lia.
Qed.

Lemma dec_length n k : n < 10 ^ N.of_nat k -> (1 <= k)%nat -> (length (dec n) <= k)%nat.
Proof. intros H Hk. unfold dec. pose proof (digits_length (S (N.size_nat n)) n [] k H Hk). simpl in *. lia. Qed.

Definition is_digit (c : N) : bool := (48 <=? c) && (c <=? 57).

(* value of a digit string; None on an empty string or a non-digit *)
Fixpoint undec_acc (s : bytes) (acc : N) : option N :=
  match s with
  | [] => Some acc
  | c :: s' => if is_digit c then undec_acc s' (acc * 10 + (c - 48)) else None
  end.
Definition undec (s : bytes) : option N :=
  match s with [] => None | _ => undec_acc s 0 end.

(* digits in base 8 (for tree modes) *)
Definition is_odigit (c : N) : bool := (48 <=? c) && (c <=? 55).
Fixpoint unoct_acc (s : bytes) (acc : N) : option N :=
  match s with
  | [] => Some acc
  | c :: s' => if is_odigit c then unoct_acc s' (acc * 8 + (c - 48)) else None
  end.
Definition unoct (s : bytes) : option N :=
  match s with [] => None | _ => unoct_acc s 0 end.

(* ---- hexadecimal (lower case, as encoding/hex prints) ---- *)
Definition hexdigit (n : N) : N := if n <? 10 then 48 + n else 87 + n.
Fixpoint hex (s : bytes) : bytes :=
  match s with
  | [] => []
  | b :: s' => hexdigit (b / 16) :: hexdigit (b mod 16) :: hex s'
  end.

(* encoding/hex.DecodeString accepts both cases *)
Definition unhexdigit (c : N) : option N :=
  if (48 <=? c) && (c <=? 57) then Some (c - 48)
  else if (97 <=? c) && (c <=? 102) then Some (c - 87)
  else if (65 <=? c) && (c <=? 70) then Some (c - 55)
  else None.
Fixpoint unhex (s : bytes) : option bytes :=
  match s with
  | [] => Some []
  | [_] => None
  | a :: b :: s' =>
      match unhexdigit a, unhexdigit b, unhex s' with
      | Some x, Some y, Some r => Some (x * 16 + y :: r)
      | _, _, _ => None
      end
  end.

(* ---- splitting and joining ---- *)
(* strings.Split(s, sep) for a single-byte separator: always at least one field *)
Fixpoint split_on (c : N) (s : bytes) : list bytes :=
  match s with
  | [] => [[]]
  | x :: s' =>
      if x =? c then [] :: split_on c s'
      else match split_on c s' with
           | [] => [[x]]   (* unreachable *)
           | w :: ws => (x :: w) :: ws
           end
  end.

Fixpoint join_with (sep : bytes) (l : list bytes) : bytes :=
  match l with
  | [] => []
  | [w] => w
  | w :: ws => w ++ sep ++ join_with sep ws
  end.

Definition SP : N := 32.
Definition LF : N := 10.
Definition NUL : N := 0.

Lemma hex_length s : length (hex s) = (2 * length s)%nat.
Proof. induction s as [|b s IH]; simpl; lia. Qed.

Lemma unhexdigit_hexdigit n : n < 16 -> unhexdigit (hexdigit n) = Some n.
Proof.
  intros H. unfold hexdigit, unhexdigit.
  destruct (n <? 10) eqn:E.
  - replace ((48 <=? 48 + n) && (48 + n <=? 57)) with true by lia. f_equal. lia.
  - replace ((48 <=? 87 + n) && (87 + n <=? 57)) with false by lia.
    replace ((97 <=? 87 + n) && (87 + n <=? 102)) with true by lia. f_equal. lia.
Qed.

Lemma unhex_hex s : Forall (fun b => b < 256) s -> unhex (hex s) = Some s.
Proof.
  induction 1 as [|b s Hb _ IH]; [reflexivity|].
  cbn [hex unhex]. rewrite !unhexdigit_hexdigit, IH by lia. f_equal. f_equal. lia.
Qed.

(* ASCII literal helper for readable models: bytes of a Coq string *)
From Coq Require Import Ascii String.
Fixpoint str (s : string) : bytes :=
  match s with
  | EmptyString => []
  | String a s' => N_of_ascii a :: str s'
  end.

Arguments str s%string.

