(* PathResolver.v — model of sizes/path_resolver.go (InOrderPathResolver and
   NullPathResolver), of setPath and of the path slots of HistorySize
   (sizes/sizes.go:219-290), as a fold over the event log of Scan.v.
   Go's *Path pointers become indices into a table of path records. *)
From Coq Require Import String.
From GS Require Import GoSem Text Counts Repo Deferred Scan.
Open Scope N_scope.

Inductive nstyle := NSNone | NSHash | NSFull.

Record prec := mk_prec {
  pr_oid : oid; pr_type : okind;
  pr_seek : N;                      (* seekerCount, a uint8: arithmetic mod 256 *)
  pr_parent : option nat;           (* index of the parent path *)
  pr_rel : bytes }.                 (* relativePath *)

Record rstate := mk_rs {
  rs_paths : list prec;             (* every Path ever allocated; index = identity *)
  rs_sought : list (oid * nat);     (* soughtPaths *)
  rs_panic : bool }.                (* a Go panic happened in the resolver *)

Definition rs0 : rstate := mk_rs [] [] false.

Fixpoint sought_find (l : list (oid * nat)) (o : oid) : option nat :=
  match l with [] => None | (o', i) :: l' => if o =? o' then Some i else sought_find l' o end.
Definition sought_del (l : list (oid * nat)) (o : oid) : list (oid * nat) :=
  filter (fun p => negb (fst p =? o)) l.

Fixpoint upd_nth {A} (l : list A) (i : nat) (f : A -> A) : list A :=
  match l, i with
  | [], _ => []
  | x :: l', O => f x :: l'
  | x :: l', S i' => x :: upd_nth l' i' f
  end.

Definition get_path (s : rstate) (i : nat) : prec := nth i (rs_paths s) (mk_prec 0 KBlob 0 None []).

(* requestPathLocked *)
Definition request (s : rstate) (o : oid) (k : okind) : rstate * nat :=
  match sought_find (rs_sought s) o with
  | Some i => (mk_rs (upd_nth (rs_paths s) i (fun p => mk_prec (pr_oid p) (pr_type p) ((pr_seek p + 1) mod 256) (pr_parent p) (pr_rel p)))
                     (rs_sought s) (rs_panic s), i)
  | None => let i := length (rs_paths s) in
            (mk_rs (rs_paths s ++ [mk_prec o k 1 None []]) ((o, i) :: rs_sought s) (rs_panic s), i)
  end.

(* forgetPathLocked, recursive along parents; fuel = number of paths *)
Fixpoint forget (fuel : nat) (s : rstate) (i : nat) : rstate :=
  match fuel with
  | O => s
  | S f =>
      let p := get_path s i in
      if pr_seek p =? 0 then mk_rs (rs_paths s) (rs_sought s) true     (* "forgetPathLocked() called when refcount zero" *)
      else
        let c := pr_seek p - 1 in
        let s1 := mk_rs (upd_nth (rs_paths s) i (fun p => mk_prec (pr_oid p) (pr_type p) c (pr_parent p) (pr_rel p)))
                        (rs_sought s) (rs_panic s) in
        if 0 <? c then s1
        else match pr_parent p with
             | Some par => forget f s1 par
             | None => match pr_rel p with
                       | [] => mk_rs (rs_paths s1) (sought_del (rs_sought s1) (pr_oid p)) (rs_panic s1)
                       | _ => s1
                       end
             end
  end.

Definition record_name (s : rstate) (name : bytes) (o : oid) : rstate :=
  match sought_find (rs_sought s) o with
  | None => s
  | Some i => mk_rs (upd_nth (rs_paths s) i (fun p => mk_prec (pr_oid p) (pr_type p) (pr_seek p) (pr_parent p) name))
                    (sought_del (rs_sought s) o) (rs_panic s)
  end.

Definition record_link (s : rstate) (parent : oid) (pk : okind) (name : bytes) (child : oid) : rstate :=
  match sought_find (rs_sought s) child with
  | None => s
  | Some i =>
      match pr_parent (get_path s i) with
      | Some _ => mk_rs (rs_paths s) (rs_sought s) true            (* "... parent unexpectedly filled in" *)
      | None =>
          let '(s1, pi) := request s parent pk in
          mk_rs (upd_nth (rs_paths s1) i (fun p => mk_prec (pr_oid p) (pr_type p) (pr_seek p) (Some pi) name))
                (sought_del (rs_sought s1) child) (rs_panic s1)
      end
  end.

(* ---- rendering ---- *)
Section Render.
Variable oidhex : oid -> bytes.

Definition type_name (k : okind) : bytes :=
  match k with KBlob => str "blob" | KTree => str "tree" | KCommit => str "commit" | KTag => str "tag" end.

(* Path / TreePrefix / BestPath are mutually recursive along parents; fuel = number of paths *)
Fixpoint tree_prefix (fuel : nat) (s : rstate) (i : nat) : bytes :=
  match fuel with
  | O => str "???"
  | S f =>
      let p := get_path s i in
      match pr_type p with
      | KBlob | KTree =>
          match pr_parent p with
          | Some par => match pr_rel p with
                        | [] => tree_prefix f s par
                        | rel => tree_prefix f s par ++ rel ++ str "/"
                        end
          | None => match pr_rel p with
                    | [] => oidhex (pr_oid p) ++ str ":"     (* after the fix; was "???" *)
                    | rel => rel ++ str "/"
                    end
          end
      | KCommit | KTag =>
          match pr_parent p with
          | Some par => best_path f s par ++ str "^{" ++ type_name (pr_type p) ++ str "}"
          | None => match pr_rel p with
                    | [] => oidhex (pr_oid p) ++ str ":"
                    | rel => rel ++ str ":"
                    end
          end
      end
  end
with path_of (fuel : nat) (s : rstate) (i : nat) : bytes :=
  match fuel with
  | O => []
  | S f =>
      let p := get_path s i in
      match pr_type p with
      | KBlob | KTree =>
          match pr_parent p with
          | Some par => match pr_rel p with
                        | [] => best_path f s par ++ str "^{" ++ type_name (pr_type p) ++ str "}"
                        | rel => tree_prefix f s par ++ rel
                        end
          | None => pr_rel p
          end
      | KCommit | KTag =>
          match pr_parent p with
          | Some par => best_path f s par ++ str "^{" ++ type_name (pr_type p) ++ str "}"
          | None => pr_rel p
          end
      end
  end
with best_path (fuel : nat) (s : rstate) (i : nat) : bytes :=
  match fuel with
  | O => []
  | S f => match path_of f s i with
           | [] => oidhex (pr_oid (get_path s i))
           | pth => pth
           end
  end.

Definition fuel_of (s : rstate) : nat := 3 * S (length (rs_paths s)).

(* Path.String(): "oid" or "oid (path)" *)
Definition path_string (s : rstate) (i : nat) : bytes :=
  let o := oidhex (pr_oid (get_path s i)) in
  match path_of (fuel_of s) s i with
  | [] => o
  | pth => o ++ str " (" ++ pth ++ str ")"
  end.

End Render.

(* ---- the twelve path slots of HistorySize, folded over the events ---- *)
Inductive slotid := SMaxCommit | SMaxParents | SMaxEntries | SMaxBlob | SMaxTagDepth
                  | SXDepth | SXLen | SXTrees | SXBlobs | SXBsize | SXLinks | SXSubs.

Definition slot_index (x : slotid) : nat :=
  match x with SMaxCommit => 0 | SMaxParents => 1 | SMaxEntries => 2 | SMaxBlob => 3 | SMaxTagDepth => 4
             | SXTrees => 5 | SXDepth => 6 | SXLen => 7 | SXBlobs => 8 | SXBsize => 9 | SXLinks => 10 | SXSubs => 11 end%nat.

(* a slot holds: nothing; a tracked path (full names); or a bare (oid, type) (hash names) *)
Inductive slotv := SVNone | SVPath (i : nat) | SVHash (o : oid) (k : okind).

Record pstate := mk_ps { ps_hist : hist; ps_res : rstate; ps_slots : list slotv }.

Definition ps0 : pstate := mk_ps hist0 rs0 (repeat SVNone 12).

(* setPath *)
Definition set_path (style : nstyle) (st : pstate) (x : slotid) (o : oid) (k : okind) : pstate :=
  match style with
  | NSNone => st
  | NSHash => mk_ps (ps_hist st) (ps_res st) (upd_nth (ps_slots st) (slot_index x) (fun _ => SVHash o k))
  | NSFull =>
      let r1 := match nth (slot_index x) (ps_slots st) SVNone with
                | SVPath i => forget (S (length (rs_paths (ps_res st)))) (ps_res st) i
                | _ => ps_res st
                end in
      let '(r2, i) := request r1 o k in
      mk_ps (ps_hist st) r2 (upd_nth (ps_slots st) (slot_index x) (fun _ => SVPath i))
  end.

Definition cond_set (style : nstyle) (flag : bool) (st : pstate) (x : slotid) (o : oid) (k : okind) : pstate :=
  if flag then set_path style st x o k else st.

Definition with_res (st : pstate) (f : rstate -> rstate) (style : nstyle) : pstate :=
  match style with NSFull => mk_ps (ps_hist st) (f (ps_res st)) (ps_slots st) | _ => st end.

(* one event: the path bookkeeping uses the history BEFORE the event, exactly as
   record* tests AdjustMax... and then calls setPath; afterwards the numbers are updated *)
Definition pstep (style : nstyle) (st : pstate) (e : ev) : pstate :=
  let h := ps_hist st in
  let st1 :=
    match e with
    | EvBlob o size => cond_set style (snd (adj_max_nec (h_maxblob h) size)) st SMaxBlob o KBlob
    | EvEntry parent name child => with_res st (fun r => record_link r parent KTree name child) style
    | EvTree o ts _ entries =>
        let s1 := cond_set style (snd (adj_max_nec (h_maxentries h) entries)) st SMaxEntries o KTree in
        let s2 := cond_set style (snd (adj_max_nec (h_xdepth h) (t_depth ts))) s1 SXDepth o KTree in
        let s3 := cond_set style (snd (adj_max_nec (h_xlen h) (t_len ts))) s2 SXLen o KTree in
        let s4 := cond_set style (snd (adj_max_nec (h_xtrees h) (t_trees ts))) s3 SXTrees o KTree in
        let s5 := cond_set style (snd (adj_max_nec (h_xblobs h) (t_blobs ts))) s4 SXBlobs o KTree in
        let s6 := cond_set style (snd (adj_max_nec (h_xbsize h) (t_bsize ts))) s5 SXBsize o KTree in
        let s7 := cond_set style (snd (adj_max_nec (h_xlinks h) (t_links ts))) s6 SXLinks o KTree in
        cond_set style (snd (adj_max_nec (h_xsubs h) (t_subs ts))) s7 SXSubs o KTree
    | EvCommit o _ size np =>
        let s1 := cond_set style (snd (adj_max_poss (h_maxcommit h) size)) st SMaxCommit o KCommit in
        cond_set style (snd (adj_max_poss (h_maxparents h) np)) s1 SMaxParents o KCommit
    | EvCommitTree o tree => with_res st (fun r => record_link r o KCommit [] tree) style
    | EvTag o depth _ => cond_set style (snd (adj_max_nec (h_tagdepth h) depth)) st SMaxTagDepth o KTag
    | EvRef name o walk _ _ => if walk then with_res st (fun r => record_name r name o) style else st
    end in
  mk_ps (record h e) (ps_res st1) (ps_slots st1).

Definition presolve (style : nstyle) (evs : list ev) : pstate := fold_left (pstep style) evs ps0.
