(* HumanProofs.v — properties of the model of counts/human.go (after the
   exact-rounding fix): for every n < 2^64 and both prefix systems. *)
From Coq Require Import String.
From GS Require Import GoSem Text Float64 Human.
Open Scope Z_scope.

Ltac Zify.zify_post_hook ::= Z.div_mod_to_equations.

(* ---- the prefix chosen, as explicit thresholds ---- *)
Definition regime_mult (s : psys) (n : Z) : Z :=
  match s with
  | Metric =>
      if n <? 1000 then 1 else if n <? 1000000 then 1000 else if n <? 1000000000 then 1000000
      else if n <? 1000000000000 then 1000000000 else if n <? 1000000000000000 then 1000000000000
      else 1000000000000000
  | Binary =>
      if n <? 1024 then 1 else if n <? 1048576 then 1024 else if n <? 1073741824 then 1048576
      else if n <? 1099511627776 then 1073741824 else if n <? 1125899906842624 then 1099511627776
      else 1125899906842624
  end.

Definition mult_of (c : bytes * Z * Z) : Z := snd (fst c).
Definition whole_of (c : bytes * Z * Z) : Z := snd c.
Definition name_of (c : bytes * Z * Z) : bytes := fst (fst c).

Lemma div_ge1 n m : 0 < m -> 0 <= n -> (1 <=? n / m) = negb (n <? m).
Proof.
  intros Hm Hn. destruct (Z.ltb_spec n m) as [H|H]; simpl.
  - apply Z.leb_gt. rewrite Z.div_small by lia. lia.
  - apply Z.leb_le. apply Z.div_le_lower_bound; lia.
Qed.

Ltac norm_div n :=
  rewrite ?(div_ge1 n 1), ?(div_ge1 n 1000), ?(div_ge1 n 1000000), ?(div_ge1 n 1000000000),
    ?(div_ge1 n 1000000000000), ?(div_ge1 n 1000000000000000),
    ?(div_ge1 n 1024), ?(div_ge1 n 1048576), ?(div_ge1 n 1073741824),
    ?(div_ge1 n 1099511627776), ?(div_ge1 n 1125899906842624) by lia.

Ltac split_ifs :=
  repeat match goal with
  | |- context [if negb ?b then _ else _] => destruct b eqn:?; cbn [negb]
  | |- context [if ?b then _ else _] => destruct b eqn:?
  end.

Lemma choose_mult s n : 0 <= n -> mult_of (choose s n) = regime_mult s n /\ whole_of (choose s n) = n / regime_mult s n.
Proof.
  intros Hn. destruct s; unfold choose, prefixes, regime_mult, mult_of, whole_of; cbn [pick];
  norm_div n; split_ifs; cbn [fst snd]; split; try reflexivity; try lia.
  all: rewrite Z.div_1_r; reflexivity.
Qed.

Lemma regime_mult_in s n : exists name, In (name, regime_mult s n) (prefixes s).
Proof.
  destruct s; unfold regime_mult, prefixes;
  repeat match goal with
  | |- context [if ?b then _ else _] => destruct b
  end; eexists; simpl; eauto 10.
Qed.

(* the prefix is the largest multiplier not exceeding the value *)
Lemma regime_mult_largest s n : 1 <= n ->
  regime_mult s n <= n /\ forall name m, In (name, m) (prefixes s) -> m <= n -> m <= regime_mult s n.
Proof.
  intros Hn. split.
  - destruct s; unfold regime_mult;
    repeat match goal with
    | |- context [if ?b then _ else _] => destruct b eqn:?
    end; lia.
  - intros name m Hin Hm. destruct s; unfold prefixes in Hin; simpl in Hin;
    repeat match goal with
    | H : _ \/ _ |- _ => destruct H as [H|H]
    | H : (_, _) = (_, _) |- _ => inversion H; clear H; subst
    | H : False |- _ => destruct H
    end; unfold regime_mult;
    repeat match goal with
    | |- context [if ?b then _ else _] => destruct b eqn:?
    end; lia.
Qed.

(* ---- the digits ---- *)
Definition digits_of (s : psys) (n : Z) : Z * Z :=
  mantissa_digits n (regime_mult s n) (n / regime_mult s n).

Lemma format_number_eq s n : 0 <= n ->
  format_number s n =
    if regime_mult s n =? 1 then (decZ n, name_of (choose s n))
    else (render_fixed (fst (digits_of s n)) (snd (digits_of s n)), name_of (choose s n)).
Proof.
  intros Hn. unfold format_number, digits_of.
  destruct (choose_mult s n Hn) as [Hm Hw].
  destruct (choose s n) as [[name mult] w] eqn:E. unfold mult_of, whole_of, name_of in *. cbn [fst snd] in *.
  subst mult w. destruct (regime_mult s n =? 1); [reflexivity|].
  unfold mantissa_digits. reflexivity.
Qed.

Lemma regime_mult_pos s n : 0 < regime_mult s n.
Proof.
  destruct s; unfold regime_mult;
  repeat match goal with
  | |- context [if ?b then _ else _] => destruct b
  end; lia.
Qed.

(* values below the first prefix are printed exactly *)
Lemma exact_small s n : 0 <= n -> n < (match s with Metric => 1000 | Binary => 1024 end) ->
  format_number s n = (decZ n, []).
Proof.
  intros Hn Hlt. unfold format_number, choose.
  destruct s; unfold prefixes; cbn [pick]; norm_div n; split_ifs; try lia; reflexivity.
Qed.

(* half a unit in the last displayed digit:  |D/10^p * mult - n| <= mult / (2 * 10^p) *)
Lemma half_unit s n : 0 <= n ->
  let '(d, p) := digits_of s n in
  let mult := regime_mult s n in
  2 * Z.abs (d * mult - n * 10 ^ p) <= mult.
Proof.
  intros Hn. unfold digits_of, mantissa_digits.
  pose proof (regime_mult_pos s n) as Hp.
  pose proof (rhe_close (n * 10 ^ precision (n / regime_mult s n)) (regime_mult s n) Hp) as H.
  cbv zeta. lia.
Qed.

(* at least three significant digits when a prefix is used, and bounded digits *)
Ltac close_rhe :=
  match goal with
  | |- context [rhe ?a ?b] =>
      let H := fresh "Hc" in
      pose proof (rhe_close a b ltac:(lia)) as H;
      let d := fresh "d" in set (d := rhe a b) in *; clearbody d
  end.

Lemma digits_bounds s n : 0 <= n -> n < 18446744073709551616 -> regime_mult s n <> 1 ->
  let '(d, p) := digits_of s n in
  100 <= d /\ (p = 0 \/ p = 1 \/ p = 2) /\ (p <> 0 -> d <= 1000) /\ d < 100000.
Proof.
  intros Hn Hlt Hne. unfold digits_of, mantissa_digits, precision.
  destruct s; unfold regime_mult in *; split_ifs; try (exfalso; apply Hne; reflexivity);
    change (10 ^ 0) with 1; change (10 ^ 1) with 10; change (10 ^ 2) with 100;
    close_rhe; repeat split; try tauto; try lia.
Qed.

(* ---- width of the numeral ---- *)
Lemma decZ_length z k : 0 <= z -> z < 10 ^ Z.of_nat k -> (1 <= k)%nat -> (length (decZ z) <= k)%nat.
Proof.
  intros Hz Hlt Hk. unfold decZ. apply dec_length; [|assumption].
  assert (E : Z.of_N (10 ^ N.of_nat k) = 10 ^ Z.of_nat k).
  { rewrite N2Z.inj_pow. f_equal. lia. }
  lia.
Qed.

Lemma width s n : 0 <= n -> n < 18446744073709551616 ->
  (length (fst (format_number s n)) <= 5)%nat.
Proof.
  intros Hn Hlt. rewrite format_number_eq by assumption.
  destruct (regime_mult s n =? 1) eqn:E1; cbn [fst].
  - assert (n < 10 ^ Z.of_nat 4).
    { apply Z.eqb_eq in E1. change (10 ^ Z.of_nat 4) with 10000.
      destruct s; unfold regime_mult in E1; revert E1; split_ifs; lia. }
    pose proof (decZ_length n 4 Hn H ltac:(lia)). lia.
  - apply Z.eqb_neq in E1. pose proof (digits_bounds s n Hn Hlt E1) as B.
    destruct (digits_of s n) as [d p]. cbn [fst snd]. destruct B as (B1 & B2 & B3 & B4).
    unfold render_fixed. destruct B2 as [->|[->| ->]]; cbn [Z.eqb].
    + apply decZ_length; [lia| |lia]. change (10 ^ Z.of_nat 5) with 100000. lia.
    + specialize (B3 ltac:(lia)). change (10 ^ 1) with 10.
      change (pad_frac (d mod 10) 1) with (decZ (d mod 10)).
      rewrite !app_length. cbn [length].
      pose proof (decZ_length (d / 10) 3 ltac:(lia)) as L1. change (10 ^ Z.of_nat 3) with 1000 in L1.
      pose proof (decZ_length (d mod 10) 1 ltac:(lia)) as L2. change (10 ^ Z.of_nat 1) with 10 in L2.
      specialize (L1 ltac:(lia) ltac:(lia)). specialize (L2 ltac:(lia) ltac:(lia)). lia.
    + specialize (B3 ltac:(lia)). change (10 ^ 2) with 100.
      change (pad_frac (d mod 100) 2) with (if d mod 100 <? 10 then 48%N :: decZ (d mod 100) else decZ (d mod 100)).
      rewrite !app_length. cbn [length].
      pose proof (decZ_length (d / 100) 2 ltac:(lia)) as L1. change (10 ^ Z.of_nat 2) with 100 in L1.
      specialize (L1 ltac:(lia) ltac:(lia)).
      destruct (d mod 100 <? 10) eqn:E.
      * pose proof (decZ_length (d mod 100) 1 ltac:(lia)) as L2. change (10 ^ Z.of_nat 1) with 10 in L2.
        specialize (L2 ltac:(lia) ltac:(lia)). cbn [length]. lia.
      * pose proof (decZ_length (d mod 100) 2 ltac:(lia)) as L2. change (10 ^ Z.of_nat 2) with 100 in L2.
        specialize (L2 ltac:(lia) ltac:(lia)). lia.
Qed.

(* the prefix actually used by format_number is the largest one <= n *)
Lemma prefix_largest s n : 1 <= n ->
  let mult := mult_of (choose s n) in
  (exists name, In (name, mult) (prefixes s)) /\ mult <= n /\
  (forall name m, In (name, m) (prefixes s) -> m <= n -> m <= mult) /\
  whole_of (choose s n) = n / mult.
Proof.
  intros Hn. cbv zeta. destruct (choose_mult s n ltac:(lia)) as [-> ->].
  pose proof (regime_mult_largest s n Hn) as [H1 H2].
  repeat split; auto using regime_mult_in.
Qed.

(* the computation that FormatNumber performed before the fix (float64
   division followed by %.pf) breaks the half-unit bound *)
Lemma float_version_refuted :
  exists n, 0 <= n < 18446744073709551616 /\
    let mult := regime_mult Metric n in
    let '(d, p) := mantissa_digits_float n mult (n / mult) in
    mult < 2 * Z.abs (d * mult - n * 10 ^ p).
Proof. exists 9235000000000001. vm_compute. repeat split; (discriminate || reflexivity). Qed.
