(* SizesBridge.v — tie T for sizes/sizes.go: the TreeSize/CommitSize combination
   methods generated from the Go source equal the hand-written model of
   Scan.v on every in-range operand. *)
From GS Require Import GoSem Counts CountsBridge Repo Deferred Scan.
From GSGen Require Import CountsGen SizesGen.
Open Scope N_scope.

Definition to_gen (s : tsz) : TreeSize :=
  mk_TreeSize (t_depth s) (t_len s) (t_trees s) (t_blobs s) (t_bsize s) (t_links s) (t_subs s).

Definition ts_ok (s : tsz) : Prop :=
  in32 (t_depth s) /\ in32 (t_len s) /\ in32 (t_trees s) /\ in32 (t_blobs s) /\ in64 (t_bsize s) /\
  in32 (t_links s) /\ in32 (t_subs s).

(* call-by-value with a restricted delta list: every let-bound record is
   reduced to constructor form before it is substituted (a plain unfold would
   copy the receiver 6^7 times) *)
Ltac sz_unfold :=
  cbv beta iota zeta delta
    [TreeSize_addDescendent TreeSize_addBlob TreeSize_addLink TreeSize_addSubmodule CommitSize_addParent
     set_TreeSize_MaxPathDepth set_TreeSize_MaxPathLength set_TreeSize_ExpandedTreeCount
     set_TreeSize_ExpandedBlobCount set_TreeSize_ExpandedBlobSize set_TreeSize_ExpandedLinkCount
     set_TreeSize_ExpandedSubmoduleCount set_CommitSize_MaxAncestorDepth
     add_descendent add_blob add_link add_submodule to_gen mx
     TreeSize_MaxPathDepth TreeSize_MaxPathLength TreeSize_ExpandedTreeCount TreeSize_ExpandedBlobCount
     TreeSize_ExpandedBlobSize TreeSize_ExpandedLinkCount TreeSize_ExpandedSubmoduleCount
     CommitSize_MaxAncestorDepth BlobSize_Size
     t_depth t_len t_trees t_blobs t_bsize t_links t_subs].

Ltac side :=
  first [ assumption | apply u32_in32 | apply u64_in64 | apply sat32_in32 | apply sat64_in64
        | (unfold add32; apply u32_in32) | (unfold add64; apply u64_in64)
        | (unfold in32, in64, two32, two64, u64 in *; lia) ].

Ltac field_arith :=
  rewrite ?new32_bridge by side;
  rewrite ?plus32_bridge, ?plus64_bridge by side;
  rewrite ?inc32_bridge, ?inc64_bridge by side;
  rewrite ?adjnec32_bridge;
  try reflexivity;
  try (rewrite ?u64_id by side; reflexivity).

Lemma addDescendent_bridge s n s2 : ts_ok s -> ts_ok s2 ->
  TreeSize_addDescendent (to_gen s) n (to_gen s2) = to_gen (add_descendent s n s2).
Proof.
  intros (A1 & A2 & A3 & A4 & A5 & A6 & A7) (B1 & B2 & B3 & B4 & B5 & B6 & B7).
  destruct s as [d l tr bl bs li su], s2 as [d2 l2 tr2 bl2 bs2 li2 su2].
  cbn [t_depth t_len t_trees t_blobs t_bsize t_links t_subs] in *.
  sz_unfold.
  destruct (0 <? l2) eqn:E; sz_unfold; f_equal; field_arith.
Qed.

Lemma addBlob_bridge s n size : ts_ok s -> in32 size ->
  TreeSize_addBlob (to_gen s) n (mk_BlobSize size) = to_gen (add_blob s n size).
Proof.
  intros (A1 & A2 & A3 & A4 & A5 & A6 & A7) Hs.
  destruct s as [d l tr bl bs li su]. cbn [t_depth t_len t_trees t_blobs t_bsize t_links t_subs] in *.
  sz_unfold. f_equal; field_arith.
Qed.

Lemma addLink_bridge s n : ts_ok s ->
  TreeSize_addLink (to_gen s) n = to_gen (add_link s n).
Proof.
  intros (A1 & A2 & A3 & A4 & A5 & A6 & A7).
  destruct s as [d l tr bl bs li su]. cbn [t_depth t_len t_trees t_blobs t_bsize t_links t_subs] in *.
  sz_unfold. f_equal; field_arith.
Qed.

Lemma addSubmodule_bridge s n : ts_ok s ->
  TreeSize_addSubmodule (to_gen s) n = to_gen (add_submodule s n).
Proof.
  intros (A1 & A2 & A3 & A4 & A5 & A6 & A7).
  destruct s as [d l tr bl bs li su]. cbn [t_depth t_len t_trees t_blobs t_bsize t_links t_subs] in *.
  sz_unfold. f_equal; field_arith.
Qed.

Lemma addParent_bridge d d2 :
  CommitSize_addParent (mk_CommitSize d) (mk_CommitSize d2) = mk_CommitSize (mx d d2).
Proof. sz_unfold. f_equal; field_arith. Qed.
