(* RecordFold.v — the Go aggregation functions, as regenerated from
   sizes/sizes.go (gen/RecordGen.v), folded over an event log, yield exactly
   history_of: the tie T of RecordBridge.v composed along the whole scan. *)
From GS Require Import GoSem Counts CountsBridge Repo Deferred Scan SizesBridge RecordBridge.
From GSGen Require Import CountsGen SizesGen RecordGen.
Open Scope N_scope.

(* one event through the generated Go functions (citation flags dropped here; RecordBridge states them) *)
Definition gen_step (g : HistorySize) (e : ev) : HistorySize :=
  match e with
  | EvBlob _ size => fst (HistorySize_recordBlob g (mk_BlobSize size))
  | EvTree _ ts size entries =>
      let '(g', _, _, _, _, _, _, _, _) := HistorySize_recordTree g (to_gen ts) size entries in g'
  | EvCommit _ depth size np => let '(g', _, _) := HistorySize_recordCommit g (mk_CommitSize depth) size np in g'
  | EvTag _ depth size => fst (HistorySize_recordTag g (mk_TagSize depth) size)
  | EvRef _ _ _ true _ => HistorySize_recordReference g
  | _ => g
  end.

(* sizes handed to record* fit their 32-bit parameters (the scan passes sat32 values) *)
Definition ev_small (e : ev) : Prop :=
  match e with
  | EvBlob _ size => in32 size
  | EvTree _ _ size entries => in32 size /\ in32 entries
  | EvCommit _ _ size _ => in32 size
  | _ => True
  end.

Lemma sat_add32_in32 a b : in32 (sat_add32 a b).
Proof. unfold sat_add32. apply sat32_in32. Qed.
Lemma sat_add64_in64 a b : in64 (sat_add64 a b).
Proof. unfold sat_add64. apply sat64_in64. Qed.

Lemma record_ok h e : hist_ok h -> hist_ok (record h e).
Proof.
  intros (A1 & A2 & A3 & A4 & A5 & A6 & A7 & A8 & A9).
  destruct e as [o sz|p n c|o ts sz en|o d sz np|c t|o d sz|n o w isref gs]; unfold hist_ok; cbn [record h_ncommits h_scommits h_ntrees h_strees h_nentries h_nblobs h_sblobs h_ntags h_nrefs];
    repeat split; try assumption; try apply sat_add32_in32; try apply sat_add64_in64.
  destruct isref; [apply sat_add32_in32|assumption].
Qed.

Lemma hist0_ok : hist_ok hist0.
Proof. unfold hist_ok, hist0, in32, in64, two32, two64. cbn. repeat split; lia. Qed.

Lemma gen_step_record h e : hist_ok h -> ev_small e -> gen_step (to_hgen h) e = to_hgen (record h e).
Proof.
  intros Hh Hs. destruct e as [o sz|p n c|o ts sz en|o d sz np|c t|o d sz|n o w isref gs]; cbn [gen_step ev_small] in *.
  - rewrite (recordBlob_bridge h o sz Hh Hs). reflexivity.
  - reflexivity.
  - destruct Hs as [H1 H2]. rewrite (recordTree_bridge h o ts sz en Hh H1 H2). reflexivity.
  - rewrite (recordCommit_bridge h o d sz np Hh Hs). reflexivity.
  - reflexivity.
  - rewrite (recordTag_bridge h o d sz Hh). reflexivity.
  - destruct isref; [apply (recordReference_bridge h n o w gs Hh)|].
    destruct h; reflexivity.
Qed.

Theorem gen_fold evs : Forall ev_small evs -> forall h, hist_ok h ->
  fold_left gen_step evs (to_hgen h) = to_hgen (fold_left record evs h).
Proof.
  induction evs as [|e evs IH]; intros Hs h Hh; [reflexivity|].
  inversion Hs as [|? ? H1 H2]; subst. cbn [fold_left].
  rewrite (gen_step_record h e Hh H1). apply IH; [assumption|now apply record_ok].
Qed.

Corollary gen_history evs : Forall ev_small evs ->
  fold_left gen_step evs (to_hgen hist0) = to_hgen (history_of evs).
Proof. intros H. unfold history_of. apply gen_fold; [assumption|exact hist0_ok]. Qed.

(* ---- every event the scan emits is small: sizes pass through sat32 before they reach record* ---- *)
From GS Require Import RepoProofs ScanProofs ScanTree ScanMain ScanFinal DispatchScan.

Lemma sat32_small n : in32 (sat32 n).
Proof. apply sat32_in32. Qed.

Lemma phase1_small r enum : forall blobs b evs ts cs gs, phase1 r enum blobs = SOk (b, evs, ts, cs, gs) -> Forall ev_small evs.
Proof.
  induction enum as [|o enum IH]; intros blobs b evs ts cs gs H; cbn [phase1] in H; [inversion H; constructor|].
  destruct (lookup r o) as [[sz|sz es|sz t ps|sz t k]|]; try discriminate.
  - destruct (phase1 r enum (fupd blobs o (Some (sat32 sz)))) as [[[[[b' evs'] ts'] cs'] gs']| |] eqn:E; try discriminate.
    inversion H; subst. constructor; [apply sat32_small|eapply IH; eauto].
  - destruct (phase1 r enum blobs) as [[[[[b' evs'] ts'] cs'] gs']| |] eqn:E; try discriminate. inversion H; subst. eapply IH; eauto.
  - destruct (phase1 r enum blobs) as [[[[[b' evs'] ts'] cs'] gs']| |] eqn:E; try discriminate. inversion H; subst. eapply IH; eauto.
  - destruct (phase1 r enum blobs) as [[[[[b' evs'] ts'] cs'] gs']| |] eqn:E; try discriminate. inversion H; subst. eapply IH; eauto.
Qed.

Lemma tlog_small r l : Forall ev_small (map (tlog_event r) l).
Proof.
  apply Forall_forall. intros e He. apply in_map_iff in He. destruct He as ([n v|p c nm] & <- & _); cbn [tlog_event ev_small]; [|exact I].
  split; [apply sat32_small|]. unfold tree_nentries. destruct (lookup r n) as [[| s es | |]|]; try apply sat32_small; unfold in32, two32; lia.
Qed.

Lemma imm_small t es : Forall ev_small (imm_events t es).
Proof.
  unfold imm_events. apply Forall_forall. intros e He. apply in_flat_map in He. destruct He as (x & _ & Hin).
  destruct (entry_kind (e_mode x)); try destruct Hin as [<-|[]]; try destruct Hin; exact I.
Qed.

Lemma feed_trees_small fuel r blobs ts : forall s evs s' evs', Forall ev_small evs ->
  feed_trees fuel r blobs ts s evs = SOk (s', evs') -> Forall ev_small evs'.
Proof.
  induction ts as [|t ts IH]; intros s evs s' evs' Hev H; cbn [feed_trees] in H; [inversion H; subst; assumption|].
  destruct (done tsz bytes s t); [discriminate|]. destruct (lookup r t) as [[| sz es | |]|]; try discriminate.
  destruct (dentries blobs es); [|discriminate].
  destruct (deliver tsz tcontrib bytes tapply ts_init tcontrib_of fuel t l s) as [s1|]; [|discriminate].
  eapply IH; [|exact H]. apply Forall_app. split; [assumption|]. apply Forall_app. split; [apply imm_small|apply tlog_small].
Qed.

Lemma feed_commits_small r tdone cs : forall cdone evs cdone' evs', Forall ev_small evs ->
  feed_commits r tdone cs cdone evs = SOk (cdone', evs') -> Forall ev_small evs'.
Proof.
  induction cs as [|c cs IH]; intros cdone evs cdone' evs' Hev H; cbn [feed_commits] in H; [inversion H; subst; assumption|].
  destruct (cdone c); [discriminate|]. destruct (lookup r c) as [[| | sz t ps |]|]; try discriminate.
  destruct (tdone t); [|discriminate]. destruct (pdepth cdone ps 0); [|discriminate].
  eapply IH; [|exact H]. apply Forall_app. split; [assumption|]. constructor; [apply sat32_small|constructor].
Qed.

Lemma feed_tags_small fuel r gs : forall s evs s' evs', Forall ev_small evs ->
  feed_tags fuel r gs s evs = SOk (s', evs') -> Forall ev_small evs'.
Proof.
  induction gs as [|g gs IH]; intros s evs s' evs' Hev H; cbn [feed_tags] in H; [inversion H; subst; assumption|].
  destruct (done N unit s g); [discriminate|]. destruct (lookup r g) as [[| | |sz t k]|]; try discriminate.
  match type of H with context [deliver ?a ?b ?c ?d ?e ?f ?g0 ?h ?i ?j] => destruct (deliver a b c d e f g0 h i j) as [s1|] end; [|discriminate].
  eapply IH; [|exact H]. apply Forall_app. split; [assumption|].
  apply Forall_forall. intros e He. apply in_flat_map in He. destruct He as ([n v|p c u] & _ & Hin); cbn [glog_events] in Hin; [|destruct Hin].
  destruct Hin as [<-|[]]. exact I.
Qed.

Theorem scan_events_small r enum roots nm evs : scan r enum roots nm = SOk evs -> Forall ev_small evs.
Proof.
  intros H. unfold scan in H.
  destruct (phase1 r enum (fun _ => None)) as [[[[[blobs ev1] ts] cs] gs]| |] eqn:E1; try discriminate.
  pose proof (phase1_small r enum _ _ _ _ _ _ E1) as A1.
  destruct (feed_trees (S (2 * total_entries r)) r blobs ts empty_tst ev1) as [[tstate ev2]| |] eqn:E2; try discriminate.
  pose proof (feed_trees_small _ r blobs ts _ _ _ _ A1 E2) as A2.
  destruct (feed_commits r (done tsz bytes tstate) (rev cs) (fun _ => None) ev2) as [[cd ev3]| |] eqn:E3; try discriminate.
  pose proof (feed_commits_small r _ (rev cs) _ _ _ _ A2 E3) as A3.
  set (ev4 := if nm then ev3 ++ map (fun c => EvCommitTree c (commit_tree r c)) cs else ev3) in *.
  assert (A4 : Forall ev_small ev4).
  { unfold ev4. destruct nm; [|assumption]. apply Forall_app. split; [assumption|].
    apply Forall_forall. intros e He. apply in_map_iff in He. destruct He as (c & <- & _). exact I. }
  destruct (feed_tags (S (2 * total_entries r)) r gs empty_gst ev4) as [[gstate ev5]| |] eqn:E5; try discriminate.
  pose proof (feed_tags_small _ r gs _ _ _ _ A4 E5) as A5.
  destruct (any_rec tstate (ids r) || any_rec gstate (ids r)); [discriminate|]. inversion H; subst.
  apply Forall_app. split; [assumption|]. apply Forall_forall. intros e He. apply in_map_iff in He. destruct He as (rt & <- & _). exact I.
Qed.

(* end to end: the generated Go aggregation folded over the scan's own events is the specification's census *)
Theorem generated_aggregation_is_census r enum roots names :
  wf_b r = true -> contract r (walked roots) enum -> small r ->
  exists evs, scan r enum roots names = SOk evs /\
    fold_left gen_step evs (to_hgen hist0) = to_hgen (sat_census (spec_census r (walked roots)) (nrefs_of roots)).
Proof.
  intros H1 H2 H3. destruct (ScanFinal.scan_correct r enum roots names H1 H2 H3) as (evs & E & H).
  exists evs. split; [exact E|]. rewrite (gen_history evs (scan_events_small r enum roots names evs E)). now rewrite H.
Qed.
