(* PathProofs.v — the object cited for a metric attains the metric (C08). *)
From Coq Require Import String.
From GS Require Import GoSem Text Counts Repo Deferred Scan ScanProofs PathResolver.
Open Scope N_scope.

(* the running maximum a slot belongs to, and what an event offers to it *)
Definition slot_val (x : slotid) (h : hist) : N :=
  match x with
  | SMaxCommit => h_maxcommit h | SMaxParents => h_maxparents h | SMaxEntries => h_maxentries h
  | SMaxBlob => h_maxblob h | SMaxTagDepth => h_tagdepth h
  | SXDepth => h_xdepth h | SXLen => h_xlen h | SXTrees => h_xtrees h | SXBlobs => h_xblobs h
  | SXBsize => h_xbsize h | SXLinks => h_xlinks h | SXSubs => h_xsubs h
  end.

Definition slot_kind (x : slotid) : okind :=
  match x with
  | SMaxCommit | SMaxParents => KCommit | SMaxBlob => KBlob | SMaxTagDepth => KTag | _ => KTree
  end.

(* (object, value) that event e records for slot x *)
Definition ev_val (x : slotid) (e : ev) : option (oid * N) :=
  match e, x with
  | EvBlob o size, SMaxBlob => Some (o, size)
  | EvTree o ts _ entries, SMaxEntries => Some (o, entries)
  | EvTree o ts _ _, SXDepth => Some (o, t_depth ts)
  | EvTree o ts _ _, SXLen => Some (o, t_len ts)
  | EvTree o ts _ _, SXTrees => Some (o, t_trees ts)
  | EvTree o ts _ _, SXBlobs => Some (o, t_blobs ts)
  | EvTree o ts _ _, SXBsize => Some (o, t_bsize ts)
  | EvTree o ts _ _, SXLinks => Some (o, t_links ts)
  | EvTree o ts _ _, SXSubs => Some (o, t_subs ts)
  | EvCommit o _ size _, SMaxCommit => Some (o, size)
  | EvCommit o _ _ np, SMaxParents => Some (o, np)
  | EvTag o depth _, SMaxTagDepth => Some (o, depth)
  | _, _ => None
  end.

Definition hslot (st : pstate) (x : slotid) : slotv := nth (slot_index x) (ps_slots st) SVNone.

Lemma upd_nth_same {A} (l : list A) i f d : (i < length l)%nat -> nth i (upd_nth l i f) d = f (nth i l d).
Proof. revert i. induction l as [|a l IH]; intros i H; [simpl in H; lia|]. destruct i; simpl; [reflexivity|]. apply IH. simpl in H. lia. Qed.

Lemma upd_nth_other {A} (l : list A) i j f d : i <> j -> nth j (upd_nth l i f) d = nth j l d.
Proof. revert i j. induction l as [|a l IH]; intros i j H; [destruct i; reflexivity|]. destruct i, j; simpl; try reflexivity; try congruence. apply IH. congruence. Qed.

Lemma upd_nth_length {A} (l : list A) i f : length (upd_nth l i f) = length l.
Proof. revert i. induction l as [|a l IH]; intros i; [destruct i; reflexivity|]. destruct i; simpl; [reflexivity|]. now rewrite IH. Qed.

Lemma slot_index_inj x y : slot_index x = slot_index y -> x = y.
Proof. destruct x, y; simpl; intros H; try reflexivity; discriminate. Qed.

Lemma slot_index_lt x : (slot_index x < 12)%nat.
Proof. destruct x; simpl; lia. Qed.

(* hash style: the slot holds the object itself *)
Definition slot_eqb (x y : slotid) : bool := Nat.eqb (slot_index x) (slot_index y).

Lemma cond_set_hash_slot flag st y o k x : length (ps_slots st) = 12%nat ->
  hslot (cond_set NSHash flag st y o k) x = (if slot_eqb x y && flag then SVHash o k else hslot st x).
Proof.
  intros Hl. unfold cond_set, slot_eqb. destruct flag; [|now rewrite andb_false_r].
  rewrite andb_true_r. unfold hslot, set_path. cbn [ps_slots].
  destruct (Nat.eqb_spec (slot_index x) (slot_index y)) as [E|E].
  - rewrite E. rewrite upd_nth_same; [reflexivity|]. rewrite Hl. apply slot_index_lt.
  - apply upd_nth_other. congruence.
Qed.

Lemma cond_set_hash_len flag st y o k : length (ps_slots (cond_set NSHash flag st y o k)) = length (ps_slots st).
Proof. unfold cond_set. destruct flag; [|reflexivity]. unfold set_path. cbn [ps_slots]. apply upd_nth_length. Qed.

Lemma pstep_hash_slot st e x : length (ps_slots st) = 12%nat ->
  hslot (pstep NSHash st e) x =
    match ev_val x e with
    | Some (o, v) =>
        let flag := match x with
                    | SMaxCommit | SMaxParents => snd (adj_max_poss (slot_val x (ps_hist st)) v)
                    | _ => snd (adj_max_nec (slot_val x (ps_hist st)) v)
                    end in
        if flag then SVHash o (slot_kind x) else hslot st x
    | None => hslot st x
    end
  /\ length (ps_slots (pstep NSHash st e)) = 12%nat.
Proof.
  intros Hl. unfold pstep. destruct e; cbn [with_res ps_slots ps_res ps_hist]; try (destruct walk);
    (split; [|rewrite ?cond_set_hash_len; assumption]);
    unfold hslot at 1; cbn [ps_slots];
    repeat match goal with |- context [nth (slot_index ?y) (ps_slots ?s) SVNone] => change (nth (slot_index y) (ps_slots s) SVNone) with (hslot s y) end;
    rewrite ?cond_set_hash_slot by (rewrite ?cond_set_hash_len; assumption);
    destruct x; cbn [slot_eqb slot_index Nat.eqb andb ev_val slot_val slot_kind]; reflexivity.
Qed.

(* how one event moves the running maximum of a slot *)
Lemma slot_val_record x h e :
  slot_val x (record h e) =
    match ev_val x e with
    | Some (_, v) => N.max (slot_val x h) v
    | None => slot_val x h
    end.
Proof.
  destruct e; destruct x; cbn [ev_val slot_val record h_maxcommit h_maxparents h_maxentries h_maxblob h_tagdepth
    h_xdepth h_xlen h_xtrees h_xblobs h_xbsize h_xlinks h_xsubs]; rewrite ?mx_max, ?mxp_max; try reflexivity;
    destruct isref; reflexivity.
Qed.

Definition witness_ok (evs : list ev) (st : pstate) (x : slotid) : Prop :=
  match hslot st x with
  | SVHash o k => k = slot_kind x /\ exists e v, In e evs /\ ev_val x e = Some (o, v) /\ v = slot_val x (ps_hist st)
  | SVNone => slot_val x (ps_hist st) = 0
  | SVPath _ => False
  end.

Lemma presolve_snoc style evs e : presolve style (evs ++ [e]) = pstep style (presolve style evs) e.
Proof. unfold presolve. rewrite fold_left_app. reflexivity. Qed.

Lemma pstep_hist style st e : ps_hist (pstep style st e) = record (ps_hist st) e.
Proof. reflexivity. Qed.

(* with hash names, every cited object is the object of a record* event whose
   value is the reported maximum; an empty slot means the maximum is 0 *)
Theorem witness_hash evs : forall x,
  length (ps_slots (presolve NSHash evs)) = 12%nat /\ witness_ok evs (presolve NSHash evs) x.
Proof.
  induction evs as [|e evs IH] using rev_ind; intros x.
  - split; [reflexivity|]. unfold witness_ok, presolve, hslot. cbn [fold_left ps0 ps_slots ps_hist].
    destruct x; reflexivity.
  - rewrite presolve_snoc. set (st := presolve NSHash evs) in *.
    destruct (IH x) as [Hl Hw]. destruct (pstep_hash_slot st e x Hl) as [Hs Hl']. split; [assumption|].
    unfold witness_ok in *. rewrite Hs, pstep_hist, slot_val_record.
    destruct (ev_val x e) as [[o v]|] eqn:Ev.
    + cbv zeta.
      assert (Hflag : (match x with
                       | SMaxCommit | SMaxParents => snd (adj_max_poss (slot_val x (ps_hist st)) v)
                       | _ => snd (adj_max_nec (slot_val x (ps_hist st)) v) end) = true ->
                      N.max (slot_val x (ps_hist st)) v = v).
      { destruct x; rewrite ?adj_max_nec_flag, ?adj_max_poss_flag; lia. }
      assert (Hnflag : (match x with
                       | SMaxCommit | SMaxParents => snd (adj_max_poss (slot_val x (ps_hist st)) v)
                       | _ => snd (adj_max_nec (slot_val x (ps_hist st)) v) end) = false ->
                      N.max (slot_val x (ps_hist st)) v = slot_val x (ps_hist st)).
      { destruct x; rewrite ?adj_max_nec_flag, ?adj_max_poss_flag; lia. }
      destruct (match x with
                | SMaxCommit | SMaxParents => snd (adj_max_poss (slot_val x (ps_hist st)) v)
                | _ => snd (adj_max_nec (slot_val x (ps_hist st)) v) end) eqn:F.
      * split; [reflexivity|]. exists e, v. rewrite (Hflag eq_refl). repeat split; [apply in_or_app; right; now left|assumption].
      * rewrite (Hnflag eq_refl). destruct (hslot st x) as [|i|o' k'].
        -- assumption.
        -- assumption.
        -- destruct Hw as [Hk (e' & v' & Hin & Hev & Hv)]. split; [assumption|]. exists e', v'.
           repeat split; [apply in_or_app; now left|assumption|assumption].
    + destruct (hslot st x) as [|i|o' k']; try assumption.
      destruct Hw as [Hk (e' & v' & Hin & Hev & Hv)]. split; [assumption|]. exists e', v'.
      repeat split; [apply in_or_app; now left|assumption|assumption].
Qed.

(* --names=none: nothing is ever cited *)
Theorem none_cites_nothing evs : ps_slots (presolve NSNone evs) = repeat SVNone 12.
Proof.
  induction evs as [|e evs IH] using rev_ind; [reflexivity|].
  rewrite presolve_snoc. set (st := presolve NSNone evs) in *.
  unfold pstep. destruct e; cbn [with_res cond_set set_path ps_slots ps_res]; unfold cond_set, set_path;
    repeat match goal with |- context [if ?b then _ else _] => destruct b end; assumption.
Qed.

