(* HumanMono.v — the rendered magnitude is monotone in the value (all n < 2^64). *)
From Coq Require Import String.
From GS Require Import GoSem Text Float64 Human HumanProofs.
Open Scope Z_scope.
Ltac Zify.zify_post_hook ::= Z.div_mod_to_equations.

(* ---- monotonicity of the rendered magnitude ---- *)
(* magnitude as a fraction (numerator, denominator): numeral * multiplier *)
Definition magnitude (s : psys) (n : Z) : Z * Z :=
  if regime_mult s n =? 1 then (n, 1)
  else let '(d, p) := digits_of s n in (d * regime_mult s n, 10 ^ p).

Ltac mono_rhe :=
  match goal with
  | |- context [rhe ?a1 ?b1 * _ * _ <= rhe ?a2 ?b2 * _ * _] =>
      try (assert (rhe a1 b1 <= rhe a2 b2) by (apply rhe_mono; lia))
  | |- context [_ * _ <= rhe ?a2 ?b2 * _ * _] => idtac
  | _ => idtac
  end.

Lemma monotone s n1 n2 : 0 <= n1 -> n1 <= n2 -> n2 < 18446744073709551616 ->
  fst (magnitude s n1) * snd (magnitude s n2) <= fst (magnitude s n2) * snd (magnitude s n1).
Proof.
  intros H0 H12 Hlt. unfold magnitude, digits_of, mantissa_digits, precision.
  destruct s; unfold regime_mult.
  all: repeat match goal with
       | |- context [if (?x <? ?y) then _ else _] => destruct (x <? y) eqn:?
       end; try (exfalso; lia); cbn [Z.eqb Pos.eqb];
       split_ifs; try (exfalso; lia); cbn [fst snd];
    change (10 ^ 0) with 1; change (10 ^ 1) with 10; change (10 ^ 2) with 100;
    mono_rhe; repeat close_rhe; lia.
Qed.

