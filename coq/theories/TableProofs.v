(* TableProofs.v — facts about whole tables (Output.emit / table_string), lifted
   from the per-item lemmas of OutputProofs.v:

   * [emit_nil_iff]: the text emitted for any contents is empty iff no item in
     it qualifies — a section contributes its header only together with a row;
   * [no_problems_iff]: the report is the single "No problems" line iff no
     item qualifies (both directions);
   * [shown_sublist], [shown_marker]: raising the threshold only removes items
     from the list of those shown, in order, and keeps every remaining marker;
   * [no_problems_mono]: once the report is the "No problems" line it stays so
     for every higher threshold;
   * [verbose_table_shows_all]: with a threshold <= 0 every item is shown. *)
From Coq Require Import String.
From GS Require Import GoSem Text Float64 Human Output OutputProofs.
Open Scope Z_scope.

Definition visible (t : thr) (i : item) : bool :=
  match level_of_concern i t with Some _ => true | None => false end.

(* the items shown at threshold t, in table order *)
Definition shown (c : tc) (t : thr) : list item := filter (visible t) (items_of c).

Lemma visible_false_iff t i : visible t i = false <-> level_of_concern i t = None.
Proof. unfold visible. destruct (level_of_concern i t); split; intros H; congruence. Qed.

Lemma emit_item_nil_iff i t indent f : fst (emit_item i t indent f) = [] <-> visible t i = false.
Proof. rewrite visible_false_iff. apply row_visible_iff. Qed.

Lemma add_section_nil buf indent hdr sub : add_section buf indent hdr sub = [] <-> buf = [] /\ sub = [].
Proof.
  unfold add_section. destruct sub as [|x sub].
  - split; [intros H; split; [exact H|reflexivity] | intros [H _]; exact H].
  - split.
    + intros H. apply app_eq_nil in H. destruct H as [_ H]. apply app_eq_nil in H. destruct H as [_ H]. discriminate.
    + intros [_ H]. discriminate.
Qed.

(* the section loop of emit, named *)
Definition emit_list (emit_c : tc -> thr -> Z -> fnotes -> bytes * fnotes) (t : thr) (indent : Z) (name : bytes) :=
  fix go (cs : list tc) (buf : bytes) (f : fnotes) : bytes * fnotes :=
    match cs with
    | [] => (buf, f)
    | c :: cs' =>
        let '(sub, f') := emit_c c t (indent + 1) f in
        go cs' (add_section buf indent name sub) f'
    end.

Lemma emit_sec name cs t indent f : emit (TSec name cs) t indent f = emit_list emit t indent name cs [] f.
Proof. reflexivity. Qed.

Fixpoint items_list (cs : list tc) : list item :=
  match cs with [] => [] | x :: l => items_of x ++ items_list l end.

Lemma items_of_sec name cs : items_of (TSec name cs) = items_list cs.
Proof. cbn [items_of]. induction cs as [|x l IH]; [reflexivity|]. cbn [items_list]. rewrite <- IH. reflexivity. Qed.

Lemma filter_nil_iff {A} (p : A -> bool) l : filter p l = [] <-> Forall (fun x => p x = false) l.
Proof.
  induction l as [|x l IH]; cbn [filter].
  - split; intros _; [constructor|reflexivity].
  - destruct (p x) eqn:E; split; intros H.
    + discriminate.
    + inversion H; subst. congruence.
    + constructor; [exact E|apply IH, H].
    + inversion H; subst. apply IH. assumption.
Qed.

(* the text emitted for any contents, at any indentation and with any footnotes so far, is empty iff nothing in it is shown *)
Theorem emit_nil_iff : forall c t indent f, fst (emit c t indent f) = [] <-> shown c t = [].
Proof.
  fix IH 1. intros c t indent f. destruct c as [name cs|i|d i].
  - rewrite emit_sec. unfold shown. rewrite items_of_sec.
    (* generalise the accumulated buffer *)
    assert (G : forall cs buf f, fst (emit_list emit t indent name cs buf f) = [] <->
                                 buf = [] /\ filter (visible t) (items_list cs) = []).
    { clear cs f. intros cs. induction cs as [|c cs IHcs]; intros buf f.
      - cbn [emit_list items_list filter fst]. split; [intros H; split; [exact H|reflexivity]|intros [H _]; exact H].
      - cbn [emit_list items_list]. destruct (emit c t (indent + 1) f) as [sub f'] eqn:E.
        rewrite IHcs. rewrite add_section_nil. rewrite filter_app.
        pose proof (IH c t (indent + 1) f) as Hc. rewrite E in Hc. cbn [fst] in Hc. unfold shown in Hc.
        split.
        + intros [[Hb Hs] Hr]. split; [exact Hb|]. apply Hc in Hs. rewrite Hs, Hr. reflexivity.
        + intros [Hb Hr]. apply app_eq_nil in Hr. destruct Hr as [H1 H2].
          split; [split; [exact Hb|apply Hc, H1]|exact H2]. }
    rewrite G. split; [intros [_ H]; exact H|intros H; split; [reflexivity|exact H]].
  - cbn [emit]. unfold shown. cbn [items_of filter]. rewrite emit_item_nil_iff.
    destruct (visible t i); split; intros H; congruence.
  - cbn [emit]. unfold shown. cbn [items_of filter].
    destruct (emit_item i t (indent + d) f) as [sub f'] eqn:E. cbn [fst].
    pose proof (emit_item_nil_iff i t (indent + d) f) as Hi. rewrite E in Hi. cbn [fst] in Hi. rewrite Hi.
    destruct (visible t i); split; intros H; congruence.
Qed.

Lemma no_problems_not_table : forall buf f, header_rows ++ buf ++ fn_render f <> no_problems.
Proof. intros buf f H. vm_compute in H. discriminate. Qed.

(* the report is the single "No problems" line iff no item qualifies *)
Theorem no_problems_iff c t :
  table_string c t = no_problems <-> Forall (fun i => level_of_concern i t = None) (items_of c).
Proof.
  unfold table_string. destruct (emit c t (-1) (mk_fn [])) as [buf f] eqn:E.
  pose proof (emit_nil_iff c t (-1) (mk_fn [])) as H. rewrite E in H. cbn [fst] in H.
  unfold shown in H. rewrite filter_nil_iff in H.
  assert (Hv : Forall (fun i => visible t i = false) (items_of c) <-> Forall (fun i => level_of_concern i t = None) (items_of c)).
  { split; intros HF; (eapply Forall_impl; [|exact HF]); intros i Hi; apply visible_false_iff; exact Hi. }
  rewrite <- Hv, <- H. destruct buf as [|b buf].
  - split; intros _; reflexivity.
  - split; [intros HH; exfalso; exact (no_problems_not_table _ _ HH)|intros HH; discriminate].
Qed.

(* ---- monotonicity of the whole table ---- *)
Inductive sublist {A} : list A -> list A -> Prop :=
| sub_nil : sublist [] []
| sub_skip x l1 l2 : sublist l1 l2 -> sublist l1 (x :: l2)
| sub_keep x l1 l2 : sublist l1 l2 -> sublist (x :: l1) (x :: l2).

Lemma filter_sublist {A} (p q : A -> bool) l : (forall x, In x l -> p x = true -> q x = true) ->
  sublist (filter p l) (filter q l).
Proof.
  induction l as [|x l IH]; intros H; cbn [filter]; [constructor|].
  assert (IH' : sublist (filter p l) (filter q l)) by (apply IH; intros y Hy; apply H; right; exact Hy).
  destruct (p x) eqn:P.
  - rewrite (H x (or_introl eq_refl) P). constructor; exact IH'.
  - destruct (q x); [constructor|]; exact IH'.
Qed.

Definition item_ok (i : item) : Prop := 0 < fden (alert_of i).

Lemma visible_mono i t1 t2 : 0 < th_den t1 -> 0 < th_den t2 -> thr_le t1 t2 -> visible t2 i = true -> visible t1 i = true.
Proof.
  intros D1 D2 Hle H. unfold visible in *. destruct (level_of_concern i t2) as [lvl|] eqn:E; [|discriminate].
  rewrite (level_monotone i t1 t2 lvl D1 D2 (fden_pos _) Hle E). reflexivity.
Qed.

(* raising the threshold only removes items, keeping their order ... *)
Theorem shown_sublist c t1 t2 : 0 < th_den t1 -> 0 < th_den t2 -> thr_le t1 t2 -> sublist (shown c t2) (shown c t1).
Proof. intros D1 D2 Hle. apply filter_sublist. intros i _. apply visible_mono; assumption. Qed.

(* ... and every item that remains keeps its marker *)
Theorem shown_marker c t1 t2 i : 0 < th_den t1 -> 0 < th_den t2 -> thr_le t1 t2 -> In i (shown c t2) ->
  In i (shown c t1) /\ level_of_concern i t1 = level_of_concern i t2.
Proof.
  intros D1 D2 Hle Hin. unfold shown in *. apply filter_In in Hin. destruct Hin as [Hi Hv].
  split; [apply filter_In; split; [exact Hi|apply (visible_mono i t1 t2); assumption]|].
  unfold visible in Hv. destruct (level_of_concern i t2) as [lvl|] eqn:E; [|discriminate].
  apply (level_monotone i t1 t2 lvl D1 D2 (fden_pos _) Hle E).
Qed.

Theorem no_problems_mono c t1 t2 : 0 < th_den t1 -> 0 < th_den t2 -> thr_le t1 t2 ->
  table_string c t1 = no_problems -> table_string c t2 = no_problems.
Proof.
  intros D1 D2 Hle H. apply no_problems_iff in H. apply no_problems_iff.
  eapply Forall_impl; [|exact H]. intros i Hi. cbv beta in *.
  destruct (level_of_concern i t2) as [lvl|] eqn:E; [|reflexivity].
  rewrite (level_monotone i t1 t2 lvl D1 D2 (fden_pos _) Hle E) in Hi. discriminate.
Qed.

(* --verbose / a threshold <= 0: every item of the contents is shown (so the table is never the "No problems" line unless there is no item) *)
Theorem verbose_table_shows_all c t : th_num t <= 0 -> 0 < th_den t ->
  Forall (fun i => 0 <= it_value i /\ 0 < fnum (it_scale i)) (items_of c) -> shown c t = items_of c.
Proof.
  intros Hn Hd HF. unfold shown. induction (items_of c) as [|i l IH]; [reflexivity|].
  inversion HF as [|? ? [Hv Hs] HF']; subst. cbn [filter].
  assert (E : visible t i = true).
  { unfold visible. pose proof (verbose_shows_all i t Hv Hs Hn Hd) as H. destruct (level_of_concern i t); [reflexivity|congruence]. }
  rewrite E, (IH HF'). reflexivity.
Qed.

(* ---- the real layout: every item of HistorySize.contents() meets the side conditions above ---- *)
Lemma nthz_nonneg l n : Forall (fun z => 0 <= z) l -> 0 <= nthz l n.
Proof.
  unfold nthz. revert n. induction l as [|x l IH]; intros n H; destruct n; cbn [nth]; try lia.
  - inversion H; assumption.
  - apply IH. inversion H; assumption.
Qed.

Lemma items_list_app a b : items_list (a ++ b) = items_list a ++ items_list b.
Proof. induction a as [|x a IH]; cbn [items_list app]; [reflexivity|]. rewrite IH, app_assoc. reflexivity. Qed.

Lemma items_groups gs : items_list (map group_item gs) = map (fun g => let '(sym, name, v) := g in
    mk_item (str "refgroup." ++ sym) name v (ovf32 v) Metric [] (fz 25000) []) gs.
Proof.
  induction gs as [|[[sym name] v] gs IH]; [reflexivity|].
  cbn [map items_list]. rewrite IH. reflexivity.
Qed.

Definition side (i : item) : Prop := 0 <= it_value i /\ 0 < fnum (it_scale i).

Theorem contents_items_ok r :
  Forall (fun z => 0 <= z) (rp_nums r) -> Forall (fun g => 0 <= snd g) (rp_groups r) ->
  Forall side (items_of (contents r)).
Proof.
  intros Hn Hg.
  assert (N : forall n, 0 <= nthz (rp_nums r) n) by (intros n; apply nthz_nonneg, Hn).
  unfold contents. repeat (rewrite !items_of_sec; cbn [items_list items_of I32 I64 app]).
  rewrite items_groups, ?app_nil_r.
  repeat (first [ apply Forall_cons; [split; [apply N | vm_compute; reflexivity]|] | apply Forall_app; split | apply Forall_nil ]).
  all: try (apply Forall_cons; [split; [apply N | vm_compute; reflexivity]|]).
  all: try apply Forall_nil.
  all: try (apply Forall_forall; intros i Hi; apply in_map_iff in Hi; destruct Hi as [[[sym name] v] [<- Hin]];
            rewrite Forall_forall in Hg; specialize (Hg _ Hin); cbn [snd] in Hg; split; [exact Hg | vm_compute; reflexivity]).
Qed.

(* with --verbose every quantity of the report, and every refgroup count, is shown *)
Corollary verbose_report_complete r t : th_num t <= 0 -> 0 < th_den t ->
  Forall (fun z => 0 <= z) (rp_nums r) -> Forall (fun g => 0 <= snd g) (rp_groups r) ->
  shown (contents r) t = items_of (contents r) /\ (22 <= length (shown (contents r) t))%nat.
Proof.
  intros Hn Hd H1 H2. pose proof (verbose_table_shows_all (contents r) t Hn Hd (contents_items_ok r H1 H2)) as E.
  split; [exact E|]. rewrite E. unfold contents. repeat (rewrite !items_of_sec; cbn [items_list items_of I32 I64 app]).
  rewrite ?app_length. cbn [length]. rewrite ?app_length. cbn [length]. lia.
Qed.

(* ---- the footnotes under a table ---- *)
Lemma firsts_app seen a b : firsts seen (a ++ b) = firsts (firsts seen a) b.
Proof.
  revert seen. induction a as [|x a IH]; intros seen; cbn [app firsts]; [reflexivity|].
  destruct x as [|c x']; [apply IH|]. destruct (index_of (c :: x') seen 1); apply IH.
Qed.

Lemma create_citation_firsts f t : fn_list (fst (create_citation f t)) = firsts (fn_list f) [t].
Proof.
  unfold create_citation. cbn [firsts]. destruct t as [|c t']; [reflexivity|].
  destruct (index_of (c :: t') (fn_list f) 1); reflexivity.
Qed.

Lemma emit_item_footnotes i t indent f :
  fn_list (snd (emit_item i t indent f)) = firsts (fn_list f) (map it_footnote (filter (visible t) [i])).
Proof.
  unfold emit_item, visible. cbn [filter]. destruct (level_of_concern i t) as [lvl|]; [|reflexivity].
  destruct (format_value (it_sys i) (it_value i) (it_overflow i)) as [num u].
  pose proof (create_citation_firsts f (it_footnote i)) as H.
  destruct (create_citation f (it_footnote i)) as [f' cit]. cbn [fst snd map] in *. exact H.
Qed.

(* the footnote list after emitting any contents: the distinct non-empty footnote texts of the items SHOWN, in order of
   first appearance, appended to those that were there before *)
Theorem emit_footnotes : forall c t indent f,
  fn_list (snd (emit c t indent f)) = firsts (fn_list f) (map it_footnote (shown c t)).
Proof.
  fix IH 1. intros c t indent f. destruct c as [name cs|i|d i].
  - rewrite emit_sec. unfold shown. rewrite items_of_sec.
    assert (G : forall cs buf f, fn_list (snd (emit_list emit t indent name cs buf f)) =
                                 firsts (fn_list f) (map it_footnote (filter (visible t) (items_list cs)))).
    { clear cs f. intros cs. induction cs as [|c cs IHcs]; intros buf f.
      - reflexivity.
      - cbn [emit_list items_list]. pose proof (IH c t (indent + 1) f) as Hc.
        destruct (emit c t (indent + 1) f) as [sub f'] eqn:E. cbn [snd] in Hc.
        rewrite IHcs, Hc. unfold shown. rewrite filter_app, map_app, firsts_app. reflexivity. }
    apply G.
  - cbn [emit]. unfold shown. cbn [items_of]. apply emit_item_footnotes.
  - cbn [emit]. unfold shown. cbn [items_of].
    pose proof (emit_item_footnotes i t (indent + d) f) as H.
    destruct (emit_item i t (indent + d) f) as [sub f']. exact H.
Qed.

(* so under a table: exactly the footnotes of the rows shown — every footnote belongs to a shown row, none is missing, numbered
   1..k in order of first citation, identical texts sharing one number *)
Corollary table_footnotes c t :
  fn_list (snd (emit c t (-1) (mk_fn []))) = firsts [] (map it_footnote (shown c t)).
Proof. apply emit_footnotes. Qed.

Lemma firsts_spec texts : forall seen x, In x (firsts seen texts) <-> In x seen \/ (In x texts /\ x <> []).
Proof.
  induction texts as [|t ts IH]; intros seen x; cbn [firsts].
  - split; [intros H; left; exact H|intros [H|[[] _]]; exact H].
  - destruct t as [|c t'].
    + rewrite IH. split; intros [H|[H Hn]].
      * left; exact H.
      * right. split; [right; exact H|exact Hn].
      * left; exact H.
      * destruct H as [H|H]; [subst; congruence|right; split; assumption].
    + destruct (index_of (c :: t') seen 1) as [k|] eqn:Ei.
      * rewrite IH. split; intros [H|[H Hn]].
        -- left; exact H.
        -- right. split; [right; exact H|exact Hn].
        -- left; exact H.
        -- destruct H as [H|H]; [|right; split; assumption]. subst x. left.
           clear -Ei. revert Ei. generalize 1%nat. induction seen as [|s seen IHs]; intros n Ei; cbn [index_of] in Ei; [discriminate|].
           destruct (beqb s (c :: t')) eqn:B; [left; apply beqb_eq; exact B|right; eapply IHs; exact Ei].
      * rewrite IH, in_app_iff. cbn [In]. split.
        -- intros [[H|[H|[]]]|[H Hn]].
           ++ left; exact H.
           ++ subst x. right. split; [left; reflexivity|discriminate].
           ++ right. split; [right; exact H|exact Hn].
        -- intros [H|[[H|H] Hn]].
           ++ left; left; exact H.
           ++ subst x. left. right. left. reflexivity.
           ++ right. split; assumption.
Qed.

(* every footnote under the table is the (non-empty) footnote text of a shown item, and conversely *)
Corollary table_footnote_iff c t x :
  In x (fn_list (snd (emit c t (-1) (mk_fn [])))) <-> (exists i, In i (shown c t) /\ it_footnote i = x) /\ x <> [].
Proof.
  rewrite table_footnotes, firsts_spec. cbn [In]. rewrite in_map_iff. split.
  - intros [[]|[[i [E Hi]] Hn]]. split; [exists i; split; assumption|exact Hn].
  - intros [[i [Hi E]] Hn]. right. split; [exists i; split; assumption|exact Hn].
Qed.
