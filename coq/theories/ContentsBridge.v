(* ContentsBridge.v — tie T for the report layout.

   gen/ContentsGen.v is regenerated on every run from the literal returned by
   HistorySize.contents() in sizes/output.go: the tree of sections and, per
   item, its symbol, display name, the HistorySize field cited as its path,
   the field holding its value (with that field's Count32/Count64 width from
   sizes/sizes.go), the prefix system, the unit and the reference value as an
   exact rational.  [to_tc] reads that tree against a report (the 22 numbers in
   the order of Scan.hist, the 12 footnote texts in the order below) and
   [contents_generated] proves that the result is the hand-written
   Output.contents, the object every C08/C11/C12 theorem about the table is
   stated over.  A change of a section, an item's position, name, value field,
   path field, humaner, unit or reference value in the Go literal breaks this
   proof. *)
From Coq Require Import String.
From GS Require Import GoSem Text Float64 Human Output.
From GSGen Require Import ContentsGen.
Open Scope Z_scope.

(* HistorySize value fields -> position among the 22 numbers of a report *)
Definition value_fields : list (bytes * nat) :=
  [ (str "UniqueCommitCount", 0); (str "UniqueCommitSize", 1); (str "MaxCommitSize", 2);
    (str "MaxHistoryDepth", 3); (str "MaxParentCount", 4);
    (str "UniqueTreeCount", 5); (str "UniqueTreeSize", 6); (str "UniqueTreeEntries", 7);
    (str "MaxTreeEntries", 8);
    (str "UniqueBlobCount", 9); (str "UniqueBlobSize", 10); (str "MaxBlobSize", 11);
    (str "UniqueTagCount", 12); (str "MaxTagDepth", 13); (str "ReferenceCount", 14);
    (str "MaxPathDepth", 15); (str "MaxPathLength", 16);
    (str "MaxExpandedTreeCount", 17); (str "MaxExpandedBlobCount", 18);
    (str "MaxExpandedBlobSize", 19); (str "MaxExpandedLinkCount", 20);
    (str "MaxExpandedSubmoduleCount", 21) ]%nat.

(* HistorySize path fields -> position among the footnote texts of a report *)
Definition path_fields : list (bytes * nat) :=
  [ (str "MaxCommitSizeCommit", 0); (str "MaxParentCountCommit", 1);
    (str "MaxTreeEntriesTree", 2); (str "MaxBlobSizeBlob", 3); (str "MaxTagDepthTag", 4);
    (str "MaxExpandedTreeCountTree", 5); (str "MaxPathDepthTree", 6);
    (str "MaxPathLengthTree", 7); (str "MaxExpandedBlobCountTree", 8);
    (str "MaxExpandedBlobSizeTree", 9); (str "MaxExpandedLinkCountTree", 10);
    (str "MaxExpandedSubmoduleCountTree", 11) ]%nat.

Fixpoint field_pos (k : bytes) (l : list (bytes * nat)) : option nat :=
  match l with
  | [] => None
  | (k', v) :: l' => if beqb k k' then Some v else field_pos k l'
  end.

(* a generated node as table contents; None when it names a field the model
   does not know.  The spliced refgroup rows expand to a list. *)
Fixpoint to_tc (r : report) (g : gnode) : option (list tc) :=
  match g with
  | GGroups => Some (map group_item (rp_groups r))
  | GSec name cs =>
      option_map (fun kids => [TSec name kids])
        ((fix go (l : list gnode) : option (list tc) :=
            match l with
            | [] => Some []
            | [x] => to_tc r x
            | x :: l' =>
                match to_tc r x, go l' with
                | Some a, Some b => Some (a ++ b)
                | _, _ => None
                end
            end) cs)
  | GItem sym name path width value sys unit sn sd =>
      match field_pos value value_fields with
      | None => None
      | Some vi =>
          let v := nthz (rp_nums r) vi in
          let fn := match path with
                    | None => Some []
                    | Some p => option_map (nthb (rp_fns r)) (field_pos p path_fields)
                    end in
          match fn with
          | None => None
          | Some fn =>
              if (width =? 32) || (width =? 64) then
                Some [TItem (mk_item sym name v (if width =? 32 then ovf32 v else ovf64 v)
                                     sys unit (rne53 sn sd) fn)]
              else None
          end
      end
  end.

Theorem contents_generated (r : report) : to_tc r contents_gen = Some [contents r].
Proof. reflexivity. Qed.

(* every value field and every path field is shown exactly once *)
Fixpoint gitems (g : gnode) : list (bytes * option bytes) :=
  match g with
  | GGroups => []
  | GItem _ _ path _ value _ _ _ _ => [(value, path)]
  | GSec _ cs => (fix go (l : list gnode) := match l with [] => [] | x :: l' => gitems x ++ go l' end) cs
  end.

Definition all_once (keys : list bytes) (seen : list bytes) : bool :=
  forallb (fun k => Nat.eqb (length (filter (beqb k) seen)) 1) keys.

Theorem every_field_once :
  all_once (map fst value_fields) (map fst (gitems contents_gen)) = true /\
  all_once (map fst path_fields)
           (concat (map (fun p => match snd p with Some x => [x] | None => [] end) (gitems contents_gen))) = true.
Proof. split; vm_compute; reflexivity. Qed.
