From Coq Require Import String.
From GS Require Import GoSem Text Dispatch Parsers.
Open Scope N_scope.

Definition hxb (b : bytes) : bytes := match b with [] => str "-" | _ => hex b end.
Definition unhxb (b : bytes) : option bytes := if beqb b (str "-") then Some [] else unhex b.

Definition with_data (args : list bytes) (f : bytes -> bytes) : bytes :=
  match args with
  | [a] => match unhxb a with Some d => f d | None => err "bad hex" end
  | _ => err "arity"
  end.

Definition show_res {A} (r : res A) (f : A -> bytes) : bytes :=
  match r with Ok a => f a | Err => str "ERR" | Panic => str "PANIC" end.

Definition show_entry (e : tentry) : bytes :=
  [SP] ++ dec (te_mode e) ++ [58] ++ hxb (te_name e) ++ [58] ++ hex (te_oid e).

Definition show_tree (data : bytes) : bytes :=
  show_res (tree_entries data) (fun '(es, bad) =>
    str "OK size=" ++ dec (sat32b (blen data)) ++ flat_map show_entry es ++ (if bad then str " ERR" else [])).

Definition show_commit (data : bytes) : bytes :=
  show_res (parse_commit data) (fun c =>
    str "OK size=" ++ dec (c_size c) ++ str " tree=" ++ hex (c_tree c) ++ str " parents=" ++
    join_with [44] (map hex (c_parents c))).

Definition show_tag (data : bytes) : bytes :=
  show_res (parse_tag data) (fun t =>
    str "OK size=" ++ dec (t_size t) ++ str " object=" ++ hex (t_referent t) ++ str " type=" ++ hxb (t_type t)).

Definition show_ref (line : bytes) : bytes :=
  show_res (parse_reference line) (fun r =>
    str "OK oid=" ++ hex (r_oid r) ++ str " type=" ++ hxb (r_type r) ++ str " size=" ++ dec (r_size r) ++
    str " name=" ++ hxb (r_name r)).

Definition show_bh (r : res bheader) : bytes :=
  show_res r (fun h =>
    str "OK oid=" ++ hex (bh_oid h) ++ str " type=" ++ hxb (bh_type h) ++ str " size=" ++ dec (bh_size h)).

Definition dispatch_parsers (cmd : bytes) (args : list bytes) : option bytes :=
  if beqb cmd (str "parsetree") then Some (with_data args show_tree)
  else if beqb cmd (str "parsecommit") then Some (with_data args show_commit)
  else if beqb cmd (str "parsetag") then Some (with_data args show_tag)
  else if beqb cmd (str "parseref") then Some (with_data args show_ref)
  else if beqb cmd (str "parsebatch") then Some (with_data args (fun d => show_bh (parse_batch_header d)))
  else if beqb cmd (str "parsebatch_old") then Some (with_data args (fun d => show_bh (parse_batch_header_old d)))
  else None.
