(* ParsersProofs.v — totality and round-trip properties of Parsers.v. *)
From Coq Require Import String.
From GS Require Import GoSem Text Parsers.
Open Scope N_scope.

(* ---- range facts for the partial slice operations ---- *)
Lemma index_byte_lt s c i : index_byte s c = Some i -> i < blen s.
Proof.
  unfold index_byte. intros H. pose proof (index_byte_from_spec s c 0) as S. rewrite H in S.
  destruct S as (k & -> & Hk & _). unfold blen. lia.
Qed.

Lemma bto_some s i : i <= blen s -> bto s i = Some (firstn (N.to_nat i) s).
Proof. intros H. unfold bto. destruct (i <=? blen s) eqn:E; [reflexivity|lia]. Qed.
Lemma bfrom_some s i : i <= blen s -> bfrom s i = Some (skipn (N.to_nat i) s).
Proof. intros H. unfold bfrom. destruct (i <=? blen s) eqn:E; [reflexivity|lia]. Qed.
Lemma bslice_some s a b : a <= b -> b <= blen s ->
  bslice s a b = Some (firstn (N.to_nat (b - a)) (skipn (N.to_nat a) s)).
Proof. intros H1 H2. unfold bslice. destruct ((a <=? b) && (b <=? blen s)) eqn:E; [reflexivity|lia]. Qed.

(* ---- totality ---- *)
Lemma next_entry_no_crash data : next_entry data <> Crash.
Proof.
  unfold next_entry. destruct data as [|x data']; [discriminate|]. set (data := x :: data').
  unfold next_entry_body.
  destruct (index_byte data SP) as [spAt|] eqn:E1; [|discriminate].
  pose proof (index_byte_lt _ _ _ E1) as L1.
  rewrite bto_some by lia.
  destruct (parse_uint8 _ 32); [|discriminate].
  rewrite bfrom_some by lia. set (data1 := skipn _ data).
  destruct (index_byte data1 NUL) as [nulAt|] eqn:E2; [|discriminate].
  pose proof (index_byte_lt _ _ _ E2) as L2.
  rewrite bto_some, bfrom_some by lia. set (data2 := skipn _ data1).
  destruct (blen data2 <? 20) eqn:E3; [discriminate|].
  rewrite bslice_some, bfrom_some by lia. discriminate.
Qed.

Lemma tree_entries_fuel_total fuel : forall data, exists es b, tree_entries_fuel fuel data = Ok (es, b).
Proof.
  induction fuel as [|f IH]; intros data; simpl; [eauto|].
  pose proof (next_entry_no_crash data) as NC.
  destruct (next_entry data) as [e rest| | |]; eauto; [|congruence].
  destruct (IH rest) as (es & b & ->). eauto.
Qed.

Lemma tree_entries_total data : exists es b, tree_entries data = Ok (es, b).
Proof. apply tree_entries_fuel_total. Qed.

Lemma index_lflf_from_bound : forall s i j, index_lflf_from s i = Some j -> j + 1 <= i + blen s /\ i <= j.
Proof.
  induction s as [|a s IHs]; intros i j Hj; simpl in Hj; [discriminate|].
  destruct s as [|b s']; [discriminate|].
  destruct ((a =? LF) && (b =? LF)).
  - inversion Hj; subst. unfold blen. simpl length. lia.
  - apply IHs in Hj. unfold blen in *. simpl length in *. lia.
Qed.

Lemma header_block_no_panic data : header_block data <> Panic.
Proof.
  unfold header_block. destruct (index_lflf data) as [he|] eqn:E.
  - apply index_lflf_from_bound in E. rewrite bto_some by lia. discriminate.
  - destruct data as [|x d]; [discriminate|].
    unfold bidx. destruct (nth_error (x :: d) (N.to_nat (blen (x :: d) - 1))) eqn:E2.
    + destruct (n =? LF); discriminate.
    + apply nth_error_None in E2. unfold blen in E2. simpl length in *. lia.
Qed.

Lemma next_header_no_crash h : next_header h <> Crash.
Proof.
  unfold next_header. destruct h as [|x h']; [discriminate|]. set (h := x :: h').
  destruct (index_byte h SP) as [ke|] eqn:E1; [|discriminate].
  pose proof (index_byte_lt _ _ _ E1) as L1.
  rewrite bto_some, bfrom_some by lia. set (h1 := skipn _ h).
  destruct (index_byte h1 LF) as [ve|] eqn:E2; [|discriminate].
  pose proof (index_byte_lt _ _ _ E2) as L2.
  rewrite bto_some, bfrom_some by lia. discriminate.
Qed.

Lemma headers_fuel_no_panic fuel : forall h, headers_fuel fuel h <> Panic.
Proof.
  induction fuel as [|f IH]; intros h; simpl; [discriminate|].
  pose proof (next_header_no_crash h) as NC.
  destruct (next_header h) as [kv rest| | |]; try discriminate; [|congruence].
  specialize (IH rest). destruct (headers_fuel f rest); try discriminate. congruence.
Qed.

Lemma commit_loop_no_panic hs : forall ps t, commit_loop hs ps t <> Panic.
Proof.
  induction hs as [|[k v] hs IH]; intros ps t; cbn [commit_loop]; [discriminate|].
  destruct (beqb k (str "parent")).
  - destruct (new_oid v); [apply IH|discriminate].
  - destruct (beqb k (str "tree")); [|apply IH].
    destruct t; [discriminate|]. destruct (new_oid v); [apply IH|discriminate].
Qed.

Lemma tag_loop_no_panic hs : forall o t, tag_loop hs o t <> Panic.
Proof.
  induction hs as [|[k v] hs IH]; intros o t; cbn [tag_loop]; [discriminate|].
  destruct (beqb k (str "object")).
  - destruct o; [discriminate|]. destruct (new_oid v); [apply IH|discriminate].
  - destruct (beqb k (str "type")); [|apply IH]. destruct t; [discriminate|apply IH].
Qed.

Lemma parse_commit_total data : parse_commit data <> Panic.
Proof.
  unfold parse_commit. pose proof (header_block_no_panic data) as H1.
  destruct (header_block data) as [h| |]; simpl; try discriminate; [|congruence].
  pose proof (headers_fuel_no_panic (S (length h)) h) as H2. unfold headers.
  destruct (headers_fuel (S (length h)) h) as [hs| |]; simpl; try discriminate; [|congruence].
  pose proof (commit_loop_no_panic hs [] None) as H3.
  destruct (commit_loop hs [] None) as [[ps t]| |]; simpl; try discriminate; [|congruence].
  destruct t; discriminate.
Qed.

Lemma parse_tag_total data : parse_tag data <> Panic.
Proof.
  unfold parse_tag. pose proof (header_block_no_panic data) as H1.
  destruct (header_block data) as [h| |]; simpl; try discriminate; [|congruence].
  pose proof (headers_fuel_no_panic (S (length h)) h) as H2. unfold headers.
  destruct (headers_fuel (S (length h)) h) as [hs| |]; simpl; try discriminate; [|congruence].
  pose proof (tag_loop_no_panic hs None None) as H3.
  destruct (tag_loop hs None None) as [[o t]| |]; simpl; try discriminate; [|congruence].
  destruct o, t; discriminate.
Qed.

Lemma parse_reference_total line : parse_reference line <> Panic.
Proof.
  unfold parse_reference.
  destruct (split_on SP line) as [|w0 [|w1 [|w2 [|w3 [|w4 ws]]]]]; try discriminate.
  destruct (new_oid w0); [|discriminate]. destruct (parse_uint10 w2 64); discriminate.
Qed.

Lemma parse_batch_header_total header : parse_batch_header header <> Panic.
Proof.
  unfold parse_batch_header. destruct header as [|x h']; [discriminate|]. set (h := x :: h').
  rewrite bto_some by lia. cbn [of_opt].
  set (words := split_on SP _).
  destruct (beqb (last_word words) (str "missing")); [discriminate|].
  destruct (length words <? 3)%nat eqn:E; [discriminate|].
  apply Nat.ltb_ge in E.
  destruct words as [|w0 [|w1 [|w2 ws]]]; simpl in E; try lia.
  cbn [nth_error]. destruct (new_oid w0); [|congruence]. destruct (parse_uint10 w2 64); congruence.
Qed.

(* before the fix the function panicked on short lines *)
Lemma parse_batch_header_old_refuted :
  parse_batch_header_old [] = Panic /\
  parse_batch_header_old (str "0000000000000000000000000000000000000000 blob" ++ [LF]) = Panic.
Proof. split; vm_compute; reflexivity. Qed.

(* ---- octal printing round trip ---- *)
Definition ostep (a c : N) : N := a * 8 + (c - 48).
Definition all_odigits (s : bytes) : Prop := Forall (fun c => 48 <= c <= 55) s.

Lemma unoct_acc_spec s : forall a, all_odigits s -> unoct_acc s a = Some (fold_left ostep s a).
Proof.
  induction s as [|c s IH]; intros a H; simpl; [reflexivity|].
  inversion H as [|? ? Hc Hs]; subst. unfold is_odigit.
  replace ((48 <=? c) && (c <=? 55)) with true by lia. now rewrite IH.
Qed.

Lemma fold_ostep_app s1 s2 a : fold_left ostep (s1 ++ s2) a = fold_left ostep s2 (fold_left ostep s1 a).
Proof. apply fold_left_app. Qed.

Lemma odigits_spec fuel : forall n acc, n < 8 ^ N.of_nat fuel -> (1 <= fuel)%nat ->
  exists ds, odigits fuel n acc = ds ++ acc /\ ds <> [] /\ all_odigits ds /\
             forall a, fold_left ostep ds a = a * 8 ^ N.of_nat (length ds) + n.
Proof.
  induction fuel as [|f IH]; intros n acc Hn Hf; [lia|]. cbn [odigits].
  destruct (n <? 8) eqn:E.
  - exists [48 + n mod 8]. repeat split; try discriminate.
    + constructor; [|constructor]. lia.
    + intros a. cbn [fold_left length]. unfold ostep. change (N.of_nat 1) with 1. change (8 ^ 1) with 8. lia.
  - apply N.ltb_ge in E. destruct f as [|f'].
    { change (8 ^ N.of_nat 1) with 8 in Hn. lia. }
    assert (Hd : n / 8 < 8 ^ N.of_nat (S f')).
    { replace (N.of_nat (S (S f'))) with (N.succ (N.of_nat (S f'))) in Hn by lia.
      rewrite N.pow_succ_r' in Hn. apply N.div_lt_upper_bound; lia. }
    destruct (IH (n / 8) ((48 + n mod 8) :: acc) Hd ltac:(lia)) as (ds & -> & Hne & Hall & Hval).
    exists (ds ++ [48 + n mod 8]). repeat split.
    + now rewrite <- app_assoc.
    + destruct ds; discriminate.
    + apply Forall_app. split; [assumption|]. constructor; [|constructor]. lia.
    + intros a. rewrite fold_ostep_app, Hval. cbn [fold_left]. unfold ostep.
      rewrite app_length. cbn [length].
      replace (N.of_nat (length ds + 1)) with (N.succ (N.of_nat (length ds))) by lia.
      rewrite N.pow_succ_r'. pose proof (N.div_mod' n 8). lia.
Qed.

Lemma size_nat_bound n : n < 8 ^ N.of_nat (S (N.size_nat n)).
Proof.
  assert (H : n < 2 ^ N.of_nat (N.size_nat n)).
  { destruct n as [|p]; [simpl; lia|]. simpl N.size_nat.
    assert (G : forall q, (Npos q < 2 ^ N.of_nat (Pos.size_nat q))).
    { induction q as [q IHq|q IHq|]; simpl Pos.size_nat.
      - replace (N.of_nat (S (Pos.size_nat q))) with (N.succ (N.of_nat (Pos.size_nat q))) by lia.
        rewrite N.pow_succ_r'. lia.
      - replace (N.of_nat (S (Pos.size_nat q))) with (N.succ (N.of_nat (Pos.size_nat q))) by lia.
        rewrite N.pow_succ_r'. lia.
      - simpl. lia. }
    apply G. }
  eapply N.lt_le_trans; [exact H|].
  replace (N.of_nat (S (N.size_nat n))) with (N.succ (N.of_nat (N.size_nat n))) by lia.
  rewrite N.pow_succ_r'.
  assert (2 ^ N.of_nat (N.size_nat n) <= 8 ^ N.of_nat (N.size_nat n)) by (apply N.pow_le_mono_l; lia).
  assert (0 < 8 ^ N.of_nat (N.size_nat n)) by (apply N.neq_0_lt_0, N.pow_nonzero; lia).
  lia.
Qed.

Lemma oct_spec n : oct n <> [] /\ all_odigits (oct n) /\ unoct (oct n) = Some n.
Proof.
  unfold oct. destruct (odigits_spec (S (N.size_nat n)) n [] (size_nat_bound n) ltac:(lia))
    as (ds & E & Hne & Hall & Hval).
  rewrite app_nil_r in E. rewrite E. repeat split; try assumption.
  unfold unoct. destruct ds as [|d ds']; [congruence|].
  rewrite unoct_acc_spec by assumption. rewrite Hval. f_equal; lia.
Qed.

(* ---- tree round trip ---- *)
Definition wf_entry (e : tentry) : Prop :=
  te_mode e < 2 ^ 32 /\ ~ In NUL (te_name e) /\ length (te_oid e) = 20%nat.

Lemma index_byte_from_app s1 c s2 : forall i, ~ In c s1 ->
  index_byte_from (s1 ++ c :: s2) c i = Some (i + blen s1).
Proof.
  induction s1 as [|x s1 IH]; intros i Hn; simpl.
  - rewrite N.eqb_refl. f_equal. unfold blen. simpl. lia.
  - destruct (N.eqb_spec x c) as [->|Hne]; [exfalso; apply Hn; now left|].
    rewrite IH by (intros H; apply Hn; now right). f_equal. unfold blen. simpl length. lia.
Qed.

Lemma index_byte_app s1 c s2 : ~ In c s1 -> index_byte (s1 ++ c :: s2) c = Some (blen s1).
Proof. intros H. unfold index_byte. now rewrite index_byte_from_app. Qed.

Lemma firstn_blen {A} (s1 s2 : list A) : firstn (length s1) (s1 ++ s2) = s1.
Proof. rewrite firstn_app, Nat.sub_diag, firstn_all. simpl. now rewrite app_nil_r. Qed.
Lemma skipn_blen {A} (s1 s2 : list A) : skipn (length s1) (s1 ++ s2) = s2.
Proof. rewrite skipn_app, Nat.sub_diag, skipn_all. reflexivity. Qed.

Lemma odigits_no_sp s : all_odigits s -> ~ In SP s.
Proof. intros H Hin. unfold all_odigits in H. rewrite Forall_forall in H. specialize (H _ Hin). unfold SP in H. lia. Qed.

Lemma next_entry_ser e rest : wf_entry e -> next_entry (ser_entry e ++ rest) = More e rest.
Proof.
  intros (Hm & Hn & Ho). destruct e as [mode name oid]. cbn [te_mode te_name te_oid] in *.
  destruct (oct_spec mode) as (Hne & Hall & Hun).
  unfold ser_entry. cbn [te_mode te_name te_oid].
  set (data := (oct mode ++ [SP] ++ name ++ [NUL] ++ oid) ++ rest).
  assert (Ed : data = oct mode ++ SP :: (name ++ NUL :: (oid ++ rest))).
  { subst data. repeat (rewrite <- app_assoc; simpl). reflexivity. }
  assert (En : next_entry data = next_entry_body data).
  { unfold next_entry. rewrite Ed. destruct (oct mode); [congruence|reflexivity]. }
  rewrite En. unfold next_entry_body. rewrite Ed.
  rewrite index_byte_app by (now apply odigits_no_sp).
  assert (L1 : blen (oct mode) <= blen (oct mode ++ SP :: name ++ NUL :: oid ++ rest)).
  { unfold blen. rewrite app_length. lia. }
  rewrite bto_some by exact L1.
  replace (N.to_nat (blen (oct mode))) with (length (oct mode)) by (unfold blen; lia). rewrite firstn_blen.
  unfold parse_uint8. rewrite Hun. replace (mode <? 2 ^ 32) with true by lia.
  assert (L2 : blen (oct mode) + 1 <= blen (oct mode ++ SP :: name ++ NUL :: oid ++ rest)).
  { unfold blen. rewrite app_length. simpl length. lia. }
  rewrite bfrom_some by exact L2.
  replace (N.to_nat (blen (oct mode) + 1)) with (length (oct mode ++ [SP])) by (unfold blen; rewrite app_length; simpl; lia).
  replace (oct mode ++ SP :: name ++ NUL :: oid ++ rest) with ((oct mode ++ [SP]) ++ name ++ NUL :: oid ++ rest)
    by (rewrite <- app_assoc; reflexivity).
  rewrite skipn_blen.
  rewrite index_byte_app by assumption.
  assert (L3 : blen name + 1 <= blen (name ++ NUL :: oid ++ rest)).
  { unfold blen. rewrite app_length. simpl length. lia. }
  rewrite bto_some by lia. rewrite bfrom_some by exact L3.
  replace (N.to_nat (blen name)) with (length name) by (unfold blen; lia). rewrite firstn_blen.
  replace (N.to_nat (blen name + 1)) with (length (name ++ [NUL])) by (unfold blen; rewrite app_length; simpl; lia).
  replace (name ++ NUL :: oid ++ rest) with ((name ++ [NUL]) ++ oid ++ rest) by (rewrite <- app_assoc; reflexivity).
  rewrite skipn_blen.
  assert (L4 : 20 <= blen (oid ++ rest)) by (unfold blen; rewrite app_length; lia).
  replace (blen (oid ++ rest) <? 20) with false by lia.
  rewrite bslice_some, bfrom_some by lia.
  change (N.to_nat (20 - 0)) with 20%nat. change (N.to_nat 0) with 0%nat. change (N.to_nat 20) with 20%nat.
  change (skipn 0 (oid ++ rest)) with (oid ++ rest). rewrite <- Ho, firstn_blen, skipn_blen. reflexivity.
Qed.

Lemma ser_entry_length e : (22 <= length (ser_entry e))%nat \/ (1 <= length (ser_entry e))%nat.
Proof. right. unfold ser_entry. rewrite !app_length. simpl. lia. Qed.

Lemma tree_entries_fuel_ser es : forall fuel, (length es < fuel)%nat -> Forall wf_entry es ->
  tree_entries_fuel fuel (ser_tree es) = Ok (es, false).
Proof.
  induction es as [|e es IH]; intros fuel Hf Hwf.
  - destruct fuel; [lia|]. reflexivity.
  - destruct fuel as [|f]; [simpl in Hf; lia|].
    inversion Hwf as [|? ? He Hes]; subst.
    cbn [tree_entries_fuel ser_tree flat_map]. rewrite next_entry_ser by assumption.
    fold (ser_tree es). rewrite IH; [reflexivity|simpl in Hf; lia|assumption].
Qed.

Lemma tree_roundtrip es : Forall wf_entry es -> tree_entries (ser_tree es) = Ok (es, false).
Proof.
  intros H. unfold tree_entries. apply tree_entries_fuel_ser; [|assumption].
  assert (G : (length es <= length (ser_tree es))%nat).
  { clear H. induction es as [|e es IH]; simpl; [lia|]. rewrite app_length.
    assert (1 <= length (ser_entry e))%nat by (unfold ser_entry; rewrite !app_length; simpl; lia). lia. }
  lia.
Qed.

(* ---- the for-each-ref line parser is lossless: every field comes back byte for byte ---- *)
Lemma split_on_nosep c w : ~ In c w -> split_on c w = [w].
Proof.
  induction w as [|x w IH]; intros Hn; [reflexivity|]. cbn [split_on].
  destruct (N.eqb_spec x c) as [->|Hne]; [exfalso; apply Hn; now left|].
  rewrite IH; [reflexivity|]. intros Hin. apply Hn. now right.
Qed.

Lemma split_on_app c w rest : ~ In c w -> split_on c (w ++ c :: rest) = w :: split_on c rest.
Proof.
  induction w as [|x w IH]; intros Hn; cbn [app split_on].
  - now rewrite N.eqb_refl.
  - destruct (N.eqb_spec x c) as [->|Hne]; [exfalso; apply Hn; now left|].
    rewrite IH; [reflexivity|]. intros Hin. apply Hn. now right.
Qed.

Lemma unhex_no_sp : forall s h, unhex h = Some s -> ~ In SP h.
Proof.
  induction s as [|x s IH]; intros h E Hin; destruct h as [|a [|b h']]; cbn [unhex] in E; try discriminate; try contradiction.
  - destruct (unhexdigit a), (unhexdigit b), (unhex h'); discriminate.
  - destruct (unhexdigit a) as [da|] eqn:Ea; [|discriminate]. destruct (unhexdigit b) as [db|] eqn:Eb; [|discriminate].
    destruct (unhex h') as [t|] eqn:Et; [|discriminate]. injection E as _ <-.
    destruct Hin as [->|[->|Hin]]; [vm_compute in Ea; discriminate|vm_compute in Eb; discriminate|].
    now apply (IH h').
Qed.

Lemma hex_no_sp s : Forall (fun b => b < 256) s -> ~ In SP (hex s).
Proof. intros Hs. apply (unhex_no_sp s). now apply unhex_hex. Qed.

Theorem parse_reference_lossless oid typ ds name size :
  length oid = 20%nat -> Forall (fun b => b < 256) oid ->
  ~ In SP typ -> ~ In SP ds -> ~ In SP name -> parse_uint10 ds 64 = Some size ->
  parse_reference (hex oid ++ SP :: typ ++ SP :: ds ++ SP :: name) = Ok (mk_reference name typ (sat32b size) oid).
Proof.
  intros Hlen Hb Ht Hd Hn Hsz. unfold parse_reference.
  rewrite split_on_app by now apply hex_no_sp. rewrite split_on_app by exact Ht. rewrite split_on_app by exact Hd.
  rewrite split_on_nosep by exact Hn.
  unfold new_oid. rewrite unhex_hex by exact Hb. rewrite Hlen. cbn [Nat.eqb]. rewrite Hsz. reflexivity.
Qed.

(* the name may end in anything that is not a blank: CR, TAB, U+00A0, U+3000 ... *)
Example parse_reference_keeps_odd_names :
  match parse_reference (hex (repeat 171 20) ++ SP :: str "commit" ++ SP :: str "217" ++ SP :: (str "refs/heads/main" ++ [194; 160; 9; 13])) with
  | Ok r => r_name r = str "refs/heads/main" ++ [194; 160; 9; 13] /\ r_size r = 217
  | _ => False
  end.
Proof. vm_compute. split; reflexivity. Qed.

(* ---- the cat-file header parser likewise: `<oid> <type> <size>` followed by one more byte (the LF) ---- *)
Lemma firstn_all_but_last {A} (l : list A) e : firstn (length (l ++ [e]) - 1) (l ++ [e]) = l.
Proof. rewrite app_length. cbn [length]. replace (length l + 1 - 1)%nat with (length l) by lia. apply firstn_blen. Qed.

Lemma last_three {A} (a b c d : A) : List.last [a; b; c] d = c.
Proof. reflexivity. Qed.

Theorem parse_batch_header_lossless oid typ ds e size :
  length oid = 20%nat -> Forall (fun b => b < 256) oid ->
  ~ In SP typ -> ~ In SP ds -> parse_uint10 ds 64 = Some size ->
  parse_batch_header (hex oid ++ SP :: typ ++ SP :: ds ++ [e]) = Ok (mk_bheader oid typ (sat32b size)).
Proof.
  intros Hlen Hb Ht Hd Hsz.
  set (body := hex oid ++ SP :: typ ++ SP :: ds).
  assert (Eh : hex oid ++ SP :: typ ++ SP :: ds ++ [e] = body ++ [e]).
  { unfold body. rewrite <- !app_assoc. cbn [app]. rewrite <- !app_assoc. reflexivity. }
  rewrite Eh. clear Eh. unfold parse_batch_header.
  destruct (body ++ [e]) as [|x l] eqn:El; [destruct body; discriminate|]. rewrite <- El. clear x l El.
  assert (Eb : bto (body ++ [e]) (blen (body ++ [e]) - 1) = Some body).
  { unfold bto, blen. destruct (N.leb_spec (N.of_nat (length (body ++ [e])) - 1) (N.of_nat (length (body ++ [e])))); [|lia].
    f_equal. replace (N.to_nat (N.of_nat (length (body ++ [e])) - 1)) with (length (body ++ [e]) - 1)%nat by lia.
    apply firstn_all_but_last. }
  rewrite Eb. cbn [of_opt]. unfold body.
  rewrite split_on_app by now apply hex_no_sp. rewrite split_on_app by exact Ht. rewrite split_on_nosep by exact Hd.
  unfold last_word. rewrite last_three.
  destruct (beqb ds (str "missing")) eqn:Em.
  { apply beqb_eq in Em. subst ds. vm_compute in Hsz. discriminate. }
  cbn [length Nat.ltb Nat.leb nth_error]. unfold new_oid. rewrite unhex_hex by exact Hb. rewrite Hlen. cbn [Nat.eqb]. rewrite Hsz. reflexivity.
Qed.

(* ---- decimal printing round trip (fmt "%d" then strconv.ParseUint), as for octal above ---- *)
Definition dstep (a c : N) : N := a * 10 + (c - 48).
Definition all_digits (s : bytes) : Prop := Forall (fun c => 48 <= c <= 57) s.

Lemma undec_acc_spec s : forall a, all_digits s -> undec_acc s a = Some (fold_left dstep s a).
Proof.
  induction s as [|c s IH]; intros a H; simpl; [reflexivity|].
  inversion H as [|? ? Hc Hs]; subst. unfold is_digit.
  replace ((48 <=? c) && (c <=? 57)) with true by lia. now rewrite IH.
Qed.

Lemma digits_spec fuel : forall n acc, n < 10 ^ N.of_nat fuel -> (1 <= fuel)%nat ->
  exists ds, digits fuel n acc = ds ++ acc /\ ds <> [] /\ all_digits ds /\
             forall a, fold_left dstep ds a = a * 10 ^ N.of_nat (length ds) + n.
Proof.
  induction fuel as [|f IH]; intros n acc Hn Hf; [lia|]. cbn [digits].
  destruct (n <? 10) eqn:E.
  - exists [48 + n mod 10]. repeat split; try discriminate.
    + constructor; [|constructor]. lia.
    + intros a. cbn [fold_left length]. unfold dstep. change (N.of_nat 1) with 1. change (10 ^ 1) with 10. lia.
  - apply N.ltb_ge in E. destruct f as [|f'].
    { change (10 ^ N.of_nat 1) with 10 in Hn. lia. }
    assert (Hd : n / 10 < 10 ^ N.of_nat (S f')).
    { replace (N.of_nat (S (S f'))) with (N.succ (N.of_nat (S f'))) in Hn by lia.
      rewrite N.pow_succ_r' in Hn. apply N.div_lt_upper_bound; lia. }
    destruct (IH (n / 10) ((48 + n mod 10) :: acc) Hd ltac:(lia)) as (ds & -> & Hne & Hall & Hval).
    exists (ds ++ [48 + n mod 10]). repeat split.
    + now rewrite <- app_assoc.
    + destruct ds; discriminate.
    + apply Forall_app. split; [assumption|]. constructor; [|constructor]. lia.
    + intros a. rewrite fold_left_app, Hval. cbn [fold_left]. unfold dstep.
      rewrite app_length. cbn [length].
      replace (N.of_nat (length ds + 1)) with (N.succ (N.of_nat (length ds))) by lia.
      rewrite N.pow_succ_r'. pose proof (N.div_mod' n 10). lia.
Qed.

Lemma size_nat_bound10 n : n < 10 ^ N.of_nat (S (N.size_nat n)).
Proof.
  eapply N.lt_le_trans; [apply size_nat_bound|]. apply N.pow_le_mono_l. lia.
Qed.

Lemma dec_spec n : dec n <> [] /\ all_digits (dec n) /\ undec (dec n) = Some n.
Proof.
  unfold dec. destruct (digits_spec (S (N.size_nat n)) n [] (size_nat_bound10 n) ltac:(lia))
    as (ds & E & Hne & Hall & Hval).
  rewrite app_nil_r in E. rewrite E. repeat split; try assumption.
  unfold undec. destruct ds as [|d ds']; [congruence|].
  rewrite undec_acc_spec by assumption. rewrite Hval. f_equal; lia.
Qed.

Lemma digits_no_sp s : all_digits s -> ~ In SP s.
Proof. intros H Hin. eapply Forall_forall in H; [|exact Hin]. unfold SP in H. lia. Qed.

Theorem parse_uint10_dec n : n < 2 ^ 64 -> parse_uint10 (dec n) 64 = Some n.
Proof.
  intros Hn. unfold parse_uint10. destruct (dec_spec n) as (_ & _ & ->).
  destruct (N.ltb_spec n (2 ^ 64)); [reflexivity|lia].
Qed.

(* the closed forms: what git prints for an object of [size] bytes is read back as that size (saturated to 32 bits) *)
Corollary parse_reference_printed oid typ name size :
  length oid = 20%nat -> Forall (fun b => b < 256) oid -> ~ In SP typ -> ~ In SP name -> size < 2 ^ 64 ->
  parse_reference (hex oid ++ SP :: typ ++ SP :: dec size ++ SP :: name) = Ok (mk_reference name typ (sat32b size) oid).
Proof.
  intros. apply parse_reference_lossless; try assumption; [apply digits_no_sp, dec_spec|now apply parse_uint10_dec].
Qed.

Corollary parse_batch_header_printed oid typ size :
  length oid = 20%nat -> Forall (fun b => b < 256) oid -> ~ In SP typ -> size < 2 ^ 64 ->
  parse_batch_header (hex oid ++ SP :: typ ++ SP :: dec size ++ [10]) = Ok (mk_bheader oid typ (sat32b size)).
Proof.
  intros. apply parse_batch_header_lossless; try assumption; [apply digits_no_sp, dec_spec|now apply parse_uint10_dec].
Qed.
