(* ConfigParse.v — model of git/gitconfig.go: parsing `git config --list -z`
   and filtering entries by key prefix at '.' boundaries. *)
From Coq Require Import String.
From GS Require Import GoSem Text Parsers.
Open Scope N_scope.

(* one listing entry: key, optional value (None: the key has no value at all) *)
Definition cfg_rec := (bytes * option bytes)%type.

Definition ser_rec (r : cfg_rec) : bytes :=
  fst r ++ (match snd r with Some v => LF :: v | None => [] end) ++ [NUL].
Definition ser_config (rs : list cfg_rec) : bytes := flat_map ser_rec rs.

(* split the first NUL-terminated entry off *)
Fixpoint take_entry (s : bytes) : option (bytes * bytes) :=
  match s with
  | [] => None
  | c :: s' => if c =? NUL then Some ([], s')
               else match take_entry s' with Some (e, rest) => Some (c :: e, rest) | None => None end
  end.

Fixpoint split_lf (e : bytes) : bytes * option bytes :=
  match e with
  | [] => ([], None)
  | c :: e' => if c =? LF then ([], Some e')
               else let '(k, v) := split_lf e' in (c :: k, v)
  end.

(* GetConfig's loop after the fix: NUL first, then the first LF of the entry *)
Fixpoint parse_config_fuel (fuel : nat) (s : bytes) : res (list (bytes * bytes)) :=
  match fuel with
  | O => Err
  | S f =>
    match s with
    | [] => Ok []
    | _ => match take_entry s with
           | None => Err                       (* "invalid output from 'git config'" *)
           | Some (e, rest) =>
               let '(k, v) := split_lf e in
               match parse_config_fuel f rest with
               | Ok l => Ok ((k, match v with Some x => x | None => [] end) :: l)
               | Err => Err | Panic => Panic
               end
           end
    end
  end.
Definition parse_config (s : bytes) : res (list (bytes * bytes)) := parse_config_fuel (S (length s)) s.

(* the loop before the fix: LF first, then NUL *)
Fixpoint parse_config_old_fuel (fuel : nat) (s : bytes) : res (list (bytes * bytes)) :=
  match fuel with
  | O => Err
  | S f =>
    match s with
    | [] => Ok []
    | _ => match index_byte s LF with
           | None => Err
           | Some ke =>
             match bto s ke, bfrom s (ke + 1) with
             | Some k, Some s1 =>
               match index_byte s1 NUL with
               | None => Err
               | Some ve =>
                 match bto s1 ve, bfrom s1 (ve + 1) with
                 | Some v, Some rest =>
                     match parse_config_old_fuel f rest with
                     | Ok l => Ok ((k, v) :: l) | Err => Err | Panic => Panic
                     end
                 | _, _ => Panic
                 end
               end
             | _, _ => Panic
             end
           end
    end
  end.
Definition parse_config_old (s : bytes) : res (list (bytes * bytes)) := parse_config_old_fuel (S (length s)) s.

(* configKeyMatchesPrefix — hand-written counterpart of gen/GitConfigGen.v *)
Definition key_matches_prefix (key prefix : bytes) : bool * bytes :=
  match prefix with
  | [] => (true, key)
  | _ =>
    if negb (has_prefix key prefix) then (false, [])
    else if has_suffix prefix [46] then (true, skipn (length prefix) key)
    else if (length key =? length prefix)%nat then (true, [])
    else match nth_error key (length prefix) with
         | Some c => if c =? 46 then (true, skipn (S (length prefix)) key) else (false, [])
         | None => (false, [])
         end
  end.

Definition get_config (listing prefix : bytes) : res (list (bytes * bytes)) :=
  match parse_config listing with
  | Ok l => Ok (flat_map (fun kv => let '(ok, rest) := key_matches_prefix (fst kv) prefix in
                                     if ok then [(rest, snd kv)] else []) l)
  | Err => Err | Panic => Panic
  end.
