(* Meter.v — model of meter/meter.go as a labelled transition system, and the
   theorem that EVERY interleaving of the worker with the ticker goroutines
   produces, phase by phase, a non-decreasing run of progress frames bounded by
   the phase's work followed by exactly one final frame carrying the exact
   count — and nothing else. *)
From Coq Require Import List Arith Lia Bool Sorted.
Import ListNotations.

(* Model of meter/meter.go.  Worker ops run in program order; Tick g is the
   body of the goroutine started by the g-th Start, executed atomically under
   the mutex. *)
Inductive wop := Start (f:nat) | Inc | Done.
Inductive line := Prog (f c:nat) | Final (f c:nat).
Inductive ev := W | T (g:nat).

Record mst := mk { cur : option nat; fmt : nat; count : nat; nextid : nat;
                   live : list nat; out : list line }.
Definition init_st := mk None 0 0 0 [] [].

Definition step_w (o:wop) (s:mst) : mst :=
  match o with
  | Start f => mk (Some (nextid s)) f 0 (S (nextid s)) (nextid s :: live s) (out s)
  | Inc => mk (cur s) (fmt s) (S (count s)) (nextid s) (live s) (out s)
  | Done => mk None (fmt s) (count s) (nextid s) (live s) (out s ++ [Final (fmt s) (count s)])
  end.

Definition step_t (g:nat) (s:mst) : mst :=
  if existsb (Nat.eqb g) (live s) then
    match cur s with
    | Some c => if Nat.eqb c g
                then mk (cur s) (fmt s) (count s) (nextid s) (live s) (out s ++ [Prog (fmt s) (count s)])
                else mk (cur s) (fmt s) (count s) (nextid s) (filter (fun x => negb (Nat.eqb x g)) (live s)) (out s)
    | None => mk (cur s) (fmt s) (count s) (nextid s) (filter (fun x => negb (Nat.eqb x g)) (live s)) (out s)
    end
  else s.

(* run a schedule against a worker program; returns state and unconsumed program *)
Fixpoint run (sch:list ev) (prog:list wop) (s:mst) : mst * list wop :=
  match sch with
  | [] => (s, prog)
  | W :: sch' => match prog with [] => run sch' [] s | o :: prog' => run sch' prog' (step_w o s) end
  | T g :: sch' => run sch' prog (step_t g s)
  end.

(* well-bracketed programs: (Start f; Inc^n; Done)* *)
Fixpoint phase_prog (ps : list (nat*nat)) : list wop :=
  match ps with [] => [] | (f,n) :: ps' => Start f :: repeat Inc n ++ Done :: phase_prog ps' end.

(* expected shape of the output *)
Definition nondecr (cs:list nat) := forall i j, i <= j -> j < length cs -> nth i cs 0 <= nth j cs 0.
Inductive Blocks : list (nat*nat) -> list line -> Prop :=
| B_nil : Blocks [] []
| B_snoc ps o f n cs : Blocks ps o -> Forall (fun c => c <= n) cs -> StronglySorted le cs ->
    Blocks (ps ++ [(f,n)]) (o ++ map (Prog f) cs ++ [Final f n]).

Definition InProg (ps:list (nat*nat)) (f cnt:nat) (o:list line) : Prop :=
  exists o0 cs, Blocks ps o0 /\ o = o0 ++ map (Prog f) cs /\
     Forall (fun c => c <= cnt) cs /\ StronglySorted le cs.

Definition Idle (ps:list (nat*nat)) (s:mst) := cur s = None /\ Blocks ps (out s).
Definition Active (ps:list (nat*nat)) (f:nat) (s:mst) :=
  exists g, cur s = Some g /\ fmt s = f /\ InProg ps f (count s) (out s).

Lemma ss_snoc cs c : StronglySorted le cs -> Forall (fun x => x <= c) cs -> StronglySorted le (cs ++ [c]).
Proof. induction cs as [|a cs IH]; intros Hs Hf; simpl.
  - constructor; constructor.
  - inversion Hs; subst. inversion Hf; subst. constructor; auto.
    apply Forall_app. split; auto. Qed.

Lemma tick_idle ps g s : Idle ps s -> Idle ps (step_t g s).
Proof. intros [Hc Hb]. unfold step_t. destruct (existsb _ _); [|split; auto].
  rewrite Hc. split; auto. Qed.

Lemma tick_active ps f g s : Active ps f s -> Active ps f (step_t g s).
Proof. intros (g0 & Hc & Hf & (o0 & cs & Hb & Ho & Hle & Hs)).
  unfold step_t. destruct (existsb _ _); [|exists g0; repeat split; auto; exists o0, cs; auto].
  rewrite Hc. destruct (Nat.eqb g0 g).
  - exists g0. simpl. repeat split; auto. exists o0, (cs ++ [count s]). repeat split; auto.
    + rewrite Ho, map_app, app_assoc. rewrite Hf. reflexivity.
    + apply Forall_app. split; auto.
    + apply ss_snoc; auto.
  - exists g0. simpl. repeat split; auto. exists o0, cs. auto.
Qed.

Lemma count_tick g s : count (step_t g s) = count s.
Proof. unfold step_t. destruct (existsb _ _); auto.
  destruct (cur s); [destruct (Nat.eqb _ _)|]; reflexivity. Qed.

(* running one phase from an idle state, with arbitrary ticks interleaved *)
Lemma run_incs ps f : forall sch k s s' rest more,
  Active ps f s -> run sch (repeat Inc k ++ more) s = (s', rest) ->
  (exists k', k' <= k /\ rest = repeat Inc k' ++ more /\ Active ps f s' /\ count s' + k' = count s + k)
  \/ (exists sch2 s2, Active ps f s2 /\ count s2 = count s + k /\ run sch2 more s2 = (s', rest)).
Proof.
  induction sch as [|e sch IH]; intros k s s' rest more Ha Hr; simpl in Hr.
  - inversion Hr; subst. left. exists k. repeat split; auto.
  - destruct e as [|g].
    + destruct k as [|k]; simpl in Hr.
      * right. exists (W :: sch), s. repeat split; auto.
      * assert (Ha' : Active ps f (step_w Inc s)).
        { destruct Ha as (g0 & Hc & Hf & (o0 & cs & Hb & Ho & Hle & Hs)).
          exists g0. simpl. repeat split; auto. exists o0, cs. repeat split; auto.
          eapply Forall_impl; [|exact Hle]. simpl. intros; lia. }
        destruct (IH k _ _ _ _ Ha' Hr) as [(k' & Hk & Hrest & Ha2 & Hc2)|(sch2 & s2 & Ha2 & Hc2 & Hr2)].
        -- left. exists k'. repeat split; auto. simpl in Hc2. lia.
        -- right. exists sch2, s2. repeat split; auto. simpl in Hc2. lia.
    + rewrite <- (count_tick g s). apply (IH k (step_t g s)); auto. now apply tick_active.
Qed.

Theorem meter_blocks : forall ps2 ps1 sch s s',
  Idle ps1 s -> run sch (phase_prog ps2) s = (s', []) ->
  Idle (ps1 ++ ps2) s'.
Proof.
  induction ps2 as [|[f n] ps2 IH]; intros ps1 sch s s' Hi Hr.
  - rewrite app_nil_r. simpl in Hr. revert s Hi Hr.
    induction sch as [|e sch IHs]; intros s Hi Hr; simpl in Hr.
    + inversion Hr; subst; auto.
    + destruct e; [apply (IHs s); auto|apply (IHs (step_t g s)); auto using tick_idle].
  - simpl in Hr. revert s Hi Hr.
    induction sch as [|e sch IHs]; intros s Hi Hr; simpl in Hr; [inversion Hr|].
    destruct e as [|g]; [|apply (IHs (step_t g s)); auto using tick_idle].
    (* Start consumed *)
    clear IHs.
    assert (Ha : Active ps1 f (step_w (Start f) s)).
    { destruct Hi as [Hc Hb]. exists (nextid s). simpl. repeat split; auto.
      exists (out s), []. simpl. rewrite app_nil_r. repeat split; auto; constructor. }
    assert (Hc0 : count (step_w (Start f) s) = 0) by reflexivity.
    destruct (run_incs ps1 f sch n _ _ _ _ Ha Hr) as [(k' & _ & Hrest & _)|(sch2 & s2 & Ha2 & Hc2 & Hr2)].
    { destruct k'; simpl in Hrest; discriminate. }
    rewrite Hc0 in Hc2. simpl in Hc2.
    (* now consume Done, possibly after more ticks *)
    clear Hr Ha Hc0 sch. revert s2 Ha2 Hc2 Hr2.
    induction sch2 as [|e sch2 IHs]; intros s2 Ha2 Hc2 Hr2; simpl in Hr2; [inversion Hr2|].
    destruct e as [|g].
    + assert (Hi2 : Idle (ps1 ++ [(f,n)]) (step_w Done s2)).
      { destruct Ha2 as (g0 & Hc & Hf & (o0 & cs & Hb & Ho & Hle & Hs)).
        split; [reflexivity|]. simpl. rewrite Ho, Hf, Hc2. rewrite <- app_assoc.
        constructor; auto. rewrite Hc2 in Hle. exact Hle. }
      replace (ps1 ++ (f,n) :: ps2) with ((ps1 ++ [(f,n)]) ++ ps2) by (now rewrite <- app_assoc).
      eapply IH; eauto.
    + apply (IHs (step_t g s2)); auto using tick_active. now rewrite count_tick.
Qed.

Corollary meter_all_interleavings ps sch s' :
  run sch (phase_prog ps) init_st = (s', []) -> Blocks ps (out s').
Proof. intros H. assert (Hi : Idle [] init_st) by (split; [reflexivity|constructor]).
  destruct (meter_blocks ps [] sch init_st s' Hi H) as [_ Hb]. exact Hb. Qed.

(* ---- corollaries in the words of the property ---- *)
(* the lines of one phase *)
Definition phase_lines (f : nat) (cs : list nat) (n : nat) : list line := map (Prog f) cs ++ [Final f n].

Lemma blocks_final_exact ps o : Blocks ps o ->
  map (fun p => Final (fst p) (snd p)) ps = filter (fun l => match l with Final _ _ => true | Prog _ _ => false end) o.
Proof.
  induction 1 as [|ps o f n cs Hb IH Hle Hs]; [reflexivity|].
  rewrite map_app, !filter_app, <- IH. cbn [map fst snd filter app]. f_equal.
  assert (E : filter (fun l => match l with Final _ _ => true | Prog _ _ => false end) (map (Prog f) cs) = []).
  { clear. induction cs; simpl; auto. }
  rewrite E. reflexivity.
Qed.

(* an executable acceptor for recorded output, sound for Blocks *)
Fixpoint take_progs (f : nat) (o : list line) (last : nat) (bound : nat) : option (list line) :=
  match o with
  | Prog f' c :: o' => if Nat.eqb f' f && Nat.leb last c && Nat.leb c bound then take_progs f o' c bound else None
  | _ => Some o
  end.

Fixpoint accepts (ps : list (nat * nat)) (o : list line) : bool :=
  match ps with
  | [] => match o with [] => true | _ => false end
  | (f, n) :: ps' =>
      match take_progs f o 0 n with
      | Some (Final f' c :: o') => Nat.eqb f' f && Nat.eqb c n && accepts ps' o'
      | _ => false
      end
  end.

Lemma Blocks_cons f n cs ps o : Forall (fun c => c <= n) cs -> StronglySorted le cs -> Blocks ps o ->
  Blocks ((f, n) :: ps) (map (Prog f) cs ++ Final f n :: o).
Proof.
  intros Hle Hs Hb. induction Hb as [|ps o f' n' cs' Hb IH Hle' Hs'].
  - change [(f, n)] with ([] ++ [(f, n)]). change (map (Prog f) cs ++ [Final f n]) with ([] ++ map (Prog f) cs ++ [Final f n]).
    constructor; [constructor|assumption|assumption].
  - change ((f, n) :: ps ++ [(f', n')]) with (((f, n) :: ps) ++ [(f', n')]).
    replace (map (Prog f) cs ++ Final f n :: o ++ map (Prog f') cs' ++ [Final f' n'])
      with ((map (Prog f) cs ++ Final f n :: o) ++ map (Prog f') cs' ++ [Final f' n']).
    + constructor; assumption.
    + rewrite <- app_assoc. reflexivity.
Qed.

Lemma take_progs_spec f bound : forall o last rest, take_progs f o last bound = Some rest ->
  exists cs, o = map (Prog f) cs ++ rest /\ Forall (fun c => c <= bound) cs /\ StronglySorted le cs /\
             Forall (fun c => last <= c) cs /\ (match rest with Prog _ _ :: _ => False | _ => True end).
Proof.
  induction o as [|l o IH]; intros last rest H; cbn [take_progs] in H.
  - inversion H; subst. exists []. repeat split; constructor.
  - destruct l as [f' c|f' c].
    + destruct (Nat.eqb f' f && Nat.leb last c && Nat.leb c bound) eqn:E; [|discriminate].
      apply andb_true_iff in E. destruct E as [E E3]. apply andb_true_iff in E. destruct E as [E1 E2].
      apply Nat.eqb_eq in E1. apply Nat.leb_le in E2. apply Nat.leb_le in E3. subst f'.
      destruct (IH c rest H) as (cs & -> & H1 & H2 & H3 & H4). exists (c :: cs). repeat split.
      * constructor; assumption.
      * constructor; assumption.
      * constructor; [assumption|]. eapply Forall_impl; [|exact H3]. simpl. intros; lia.
      * assumption.
    + inversion H; subst. exists []. repeat split; constructor.
Qed.

Theorem accepts_sound ps : forall o, accepts ps o = true -> Blocks ps o.
Proof.
  induction ps as [|[f n] ps IH]; intros o H; cbn [accepts] in H.
  - destruct o; [constructor|discriminate].
  - destruct (take_progs f o 0 n) as [[|[f' c|f' c] o']|] eqn:E; try discriminate.
    apply andb_true_iff in H. destruct H as [H H3]. apply andb_true_iff in H. destruct H as [H1 H2].
    apply Nat.eqb_eq in H1. apply Nat.eqb_eq in H2. subst f' c.
    destruct (take_progs_spec f n o 0 _ E) as (cs & -> & Hle & Hs & _ & _).
    apply Blocks_cons; auto.
Qed.
