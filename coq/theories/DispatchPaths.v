From Coq Require Import String.
From GS Require Import GoSem Text Dispatch DispatchParsers Repo Deferred Scan DispatchScan PathResolver.
Open Scope N_scope.

Definition style_of (b : bytes) : nstyle := if beqb b (str "n") then NSNone else if beqb b (str "h") then NSHash else NSFull.

Definition show_slot (oidhex : oid -> bytes) (st : pstate) (v : slotv) : bytes :=
  match v with
  | SVNone => str "-"
  | SVHash o _ => hxb (oidhex o)
  | SVPath i => hxb (path_string oidhex (ps_res st) i)
  end.

(* paths <style> <oid hex table, comma separated, object i at position i-1> <scenario...> *)
Definition dispatch_paths (cmd : bytes) (args : list bytes) : option bytes :=
  if beqb cmd (str "paths") then
    Some match args with
         | sty :: tbl :: rest =>
             let table := split_on COMMA tbl in
             let oidhex := fun o => nth (N.to_nat o - 1) table (str "?") in
             match parse_scenario rest with
             | None => err "bad scenario"
             | Some sc =>
                 match scan (sc_repo sc) (sc_enum sc) (sc_roots sc) (sc_names sc) with
                 | SOk evs =>
                     let st := presolve (style_of sty) evs in
                     if rs_panic (ps_res st) then str "PANIC resolver"
                     else str "OK " ++ join_with [SP] (map (show_slot oidhex st) (ps_slots st))
                 | SErr m => str "ERR " ++ dec m
                 | SPanic m => str "PANIC " ++ dec m
                 end
             end
         | _ => err "arity"
         end
  else None.
