(* Parsers.v — models of git-sizer's object and listing parsers:
   git/tree.go (TreeIter.NextEntry), git/obj_head_iter.go, git/commit.go,
   git/tag.go, git/batch_header.go, git/reference.go, git/oid.go.
   A result is Ok, Err (an error return) or Panic (a Go run-time panic: index
   or slice out of range).  Go slice expressions are written with the partial
   operations of GoSem.v so that a panic can never be hidden by a default. *)
From Coq Require Import String.
From GS Require Import GoSem Text.
Open Scope N_scope.

Inductive res (A : Type) : Type := Ok (a : A) | Err | Panic.
Arguments Ok {A} a.
Arguments Err {A}.
Arguments Panic {A}.

Definition of_opt {A B} (o : option A) (f : A -> res B) : res B :=
  match o with Some a => f a | None => Panic end.

(* ---- strconv.ParseUint(s, base, bits): digits only, no sign, no
   underscores (base given explicitly), value must fit in [bits] bits ---- *)
Definition parse_uint10 (s : bytes) (bits : N) : option N :=
  match undec s with
  | Some v => if v <? 2 ^ bits then Some v else None
  | None => None
  end.
Definition parse_uint8 (s : bytes) (bits : N) : option N :=
  match unoct s with
  | Some v => if v <? 2 ^ bits then Some v else None
  | None => None
  end.

(* ---- git/oid.go: NewOID — 40 hex digits (either case) ---- *)
Definition new_oid (s : bytes) : option bytes :=
  match unhex s with
  | Some b => if length b =? 20 then Some b else None
  | None => None
  end%nat.

(* ---- git/tree.go ---- *)
Record tentry := mk_tentry { te_mode : N; te_name : bytes; te_oid : bytes }.

Inductive step (A : Type) := More (a : A) (rest : bytes) | Done | Fail | Crash.
Arguments More {A} a rest.
Arguments Done {A}.
Arguments Fail {A}.
Arguments Crash {A}.

(* TreeIter.NextEntry — tree.go:51-85 *)
Definition next_entry_body (data : bytes) : step tentry :=
    match index_byte data SP with
    | None => Fail                                   (* "failed to find SP after mode" *)
    | Some spAt =>
      match bto data spAt with
      | None => Crash
      | Some modestr =>
        match parse_uint8 modestr 32 with
        | None => Fail
        | Some mode =>
          match bfrom data (spAt + 1) with
          | None => Crash
          | Some data1 =>
            match index_byte data1 NUL with
            | None => Fail                           (* "failed to find NUL after filename" *)
            | Some nulAt =>
              match bto data1 nulAt, bfrom data1 (nulAt + 1) with
              | Some name, Some data2 =>
                  if blen data2 <? 20 then Fail      (* "tree entry ends unexpectedly" *)
                  else match bslice data2 0 20, bfrom data2 20 with
                       | Some oid, Some rest => More (mk_tentry mode name oid) rest
                       | _, _ => Crash
                       end
              | _, _ => Crash
              end
            end
          end
        end
      end
    end.

Definition next_entry (data : bytes) : step tentry :=
  match data with
  | [] => Done
  | _ => next_entry_body data
  end.

(* iterate NextEntry to the end, as treeRecord.initialize does; the boolean
   says whether iteration ended with an error *)
Fixpoint tree_entries_fuel (fuel : nat) (data : bytes) : res (list tentry * bool) :=
  match fuel with
  | O => Ok ([], true)   (* unreachable: each entry consumes at least 22 bytes *)
  | S f =>
    match next_entry data with
    | Done => Ok ([], false)
    | Fail => Ok ([], true)
    | Crash => Panic
    | More e rest =>
        match tree_entries_fuel f rest with
        | Ok (es, b) => Ok (e :: es, b)
        | Err => Err
        | Panic => Panic
        end
    end
  end.
Definition tree_entries (data : bytes) : res (list tentry * bool) :=
  tree_entries_fuel (S (length data)) data.

(* canonical octal printing of a mode (what git writes: no leading zeros) *)
Fixpoint odigits (fuel : nat) (n : N) (acc : bytes) : bytes :=
  match fuel with
  | O => acc
  | S f =>
      let acc' := (48 + n mod 8) :: acc in
      if n <? 8 then acc' else odigits f (n / 8) acc'
  end.
Definition oct (n : N) : bytes := odigits (S (N.size_nat n)) n [].

Definition ser_entry (e : tentry) : bytes := oct (te_mode e) ++ [SP] ++ te_name e ++ [NUL] ++ te_oid e.
Definition ser_tree (es : list tentry) : bytes := flat_map ser_entry es.

(* ---- git/obj_head_iter.go ---- *)
(* bytes.Index(data, "\n\n") *)
Fixpoint index_lflf_from (s : bytes) (i : N) : option N :=
  match s with
  | a :: ((b :: _) as s') => if (a =? LF) && (b =? LF) then Some i else index_lflf_from s' (i + 1)
  | _ => None
  end.
Definition index_lflf (s : bytes) : option N := index_lflf_from s 0.

(* NewObjectHeaderIter: the header block, or an error *)
Definition header_block (data : bytes) : res bytes :=
  match index_lflf data with
  | None =>
      match data with
      | [] => Err                                        (* "has zero length" *)
      | _ => match bidx data (blen data - 1) with
             | None => Panic
             | Some c => if c =? LF then Ok data else Err  (* "no terminating LF" *)
             end
      end
  | Some headerEnd => of_opt (bto data (headerEnd + 1)) (fun h => Ok h)
  end.

(* ObjectHeaderIter.Next on non-empty data *)
Definition next_header (h : bytes) : step (bytes * bytes) :=
  match h with
  | [] => Done
  | _ =>
    match index_byte h SP with
    | None => Fail
    | Some keyEnd =>
      match bto h keyEnd, bfrom h (keyEnd + 1) with
      | Some key, Some h1 =>
        match index_byte h1 LF with
        | None => Fail
        | Some valueEnd =>
          match bto h1 valueEnd, bfrom h1 (valueEnd + 1) with
          | Some value, Some rest => More (key, value) rest
          | _, _ => Crash
          end
        end
      | _, _ => Crash
      end
    end
  end.

Fixpoint headers_fuel (fuel : nat) (h : bytes) : res (list (bytes * bytes)) :=
  match fuel with
  | O => Err
  | S f =>
    match next_header h with
    | Done => Ok []
    | Fail => Err
    | Crash => Panic
    | More kv rest =>
        match headers_fuel f rest with
        | Ok l => Ok (kv :: l)
        | Err => Err
        | Panic => Panic
        end
    end
  end.
Definition headers (h : bytes) : res (list (bytes * bytes)) := headers_fuel (S (length h)) h.

(* ---- git/commit.go: ParseCommit ---- *)
Record commit := mk_commit { c_size : N; c_parents : list bytes; c_tree : bytes }.

(* the loop body over the header list: (parents so far, tree if found) *)
Fixpoint commit_loop (hs : list (bytes * bytes)) (parents : list bytes) (tree : option bytes)
  : res (list bytes * option bytes) :=
  match hs with
  | [] => Ok (parents, tree)
  | (k, v) :: hs' =>
      if beqb k (str "parent") then
        match new_oid v with
        | None => Err
        | Some p => commit_loop hs' (parents ++ [p]) tree
        end
      else if beqb k (str "tree") then
        match tree with
        | Some _ => Err                      (* "multiple trees found" *)
        | None => match new_oid v with
                  | None => Err
                  | Some t => commit_loop hs' parents (Some t)
                  end
        end
      else commit_loop hs' parents tree
  end.

(* Errors are detected lazily, header by header, exactly as the Go loop does:
   a malformed later header only matters if the loop gets there; since every
   error aborts, the order of detection does not change Ok/Err. *)
Definition bind {A B} (r : res A) (f : A -> res B) : res B :=
  match r with Ok a => f a | Err => Err | Panic => Panic end.

Definition sat32b (n : N) : N := N.min n 4294967295.

Definition parse_commit (data : bytes) : res commit :=
  bind (header_block data) (fun h =>
  bind (headers h) (fun hs =>
  bind (commit_loop hs [] None) (fun '(parents, tree) =>
  match tree with
  | None => Err
  | Some t => Ok (mk_commit (sat32b (blen data)) parents t)
  end))).

(* ---- git/tag.go: ParseTag ---- *)
Record tag := mk_tag { t_size : N; t_referent : bytes; t_type : bytes }.

Fixpoint tag_loop (hs : list (bytes * bytes)) (obj : option bytes) (ty : option bytes)
  : res (option bytes * option bytes) :=
  match hs with
  | [] => Ok (obj, ty)
  | (k, v) :: hs' =>
      if beqb k (str "object") then
        match obj with
        | Some _ => Err
        | None => match new_oid v with
                  | None => Err
                  | Some o => tag_loop hs' (Some o) ty
                  end
        end
      else if beqb k (str "type") then
        match ty with
        | Some _ => Err
        | None => tag_loop hs' obj (Some v)
        end
      else tag_loop hs' obj ty
  end.

Definition parse_tag (data : bytes) : res tag :=
  bind (header_block data) (fun h =>
  bind (headers h) (fun hs =>
  bind (tag_loop hs None None) (fun '(obj, ty) =>
  match obj, ty with
  | Some o, Some t => Ok (mk_tag (sat32b (blen data)) o t)
  | _, _ => Err
  end))).

(* ---- git/batch_header.go: ParseBatchHeader("", header) ---- *)
Record bheader := mk_bheader { bh_oid : bytes; bh_type : bytes; bh_size : N }.

Definition last_word (ws : list bytes) : bytes := List.last ws [].

(* the code after the fix (empty line and short lines are errors) *)
Definition parse_batch_header (header : bytes) : res bheader :=
  match header with
  | [] => Err
  | _ =>
    of_opt (bto header (blen header - 1)) (fun h =>
    let words := split_on SP h in
    if beqb (last_word words) (str "missing") then Err
    else if (length words <? 3)%nat then Err
    else match nth_error words 0, nth_error words 1, nth_error words 2 with
         | Some w0, Some w1, Some w2 =>
             match new_oid w0 with
             | None => Err
             | Some oid => match parse_uint10 w2 64 with
                           | None => Err
                           | Some size => Ok (mk_bheader oid w1 (sat32b size))
                           end
             end
         | _, _, _ => Panic
         end)
  end.

(* the code before the fix: header[:len(header)-1] and words[2] unguarded *)
Definition parse_batch_header_old (header : bytes) : res bheader :=
  match isub (blen header) 1 with
  | None => Panic
  | Some n =>
    of_opt (bto header n) (fun h =>
    let words := split_on SP h in
    if beqb (last_word words) (str "missing") then Err
    else match nth_error words 0 with
         | None => Panic
         | Some w0 =>
           match new_oid w0 with
           | None => Err
           | Some oid =>
             match nth_error words 2 with
             | None => Panic
             | Some w2 =>
               match parse_uint10 w2 64, nth_error words 1 with
               | Some size, Some w1 => Ok (mk_bheader oid w1 (sat32b size))
               | None, _ => Err
               | _, None => Panic
               end
             end
           end
         end)
  end.

(* ---- git/reference.go: ParseReference ---- *)
Record reference := mk_reference { r_name : bytes; r_type : bytes; r_size : N; r_oid : bytes }.

Definition parse_reference (line : bytes) : res reference :=
  match split_on SP line with
  | [w0; w1; w2; w3] =>
      match new_oid w0 with
      | None => Err
      | Some oid => match parse_uint10 w2 64 with
                    | None => Err
                    | Some size => Ok (mk_reference w3 w1 (sat32b size) oid)
                    end
      end
  | _ => Err
  end.
