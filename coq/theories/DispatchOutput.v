From Coq Require Import String.
From GS Require Import GoSem Text Dispatch DispatchParsers DispatchScan Float64 Human Output.
Open Scope N_scope.

Definition zdec (b : bytes) : option Z :=
  match b with
  | 45 :: rest => option_map (fun n => Z.opp (Z.of_N n)) (undec rest)
  | _ => option_map Z.of_N (undec b)
  end.

Definition zshow (z : Z) : bytes := if (z <? 0)%Z then 45 :: dec (Z.to_N (Z.opp z)) else dec (Z.to_N z).

Fixpoint take_nums (n : nat) (toks : list bytes) : option (list Z * list bytes) :=
  match n with
  | O => Some ([], toks)
  | S n' => match toks with
            | t :: toks' => match zdec t, take_nums n' toks' with
                            | Some z, Some (l, rest) => Some (z :: l, rest)
                            | _, _ => None end
            | [] => None end
  end.

Fixpoint take_hex (n : nat) (toks : list bytes) : option (list bytes * list bytes) :=
  match n with
  | O => Some ([], toks)
  | S n' => match toks with
            | t :: toks' => match unhxb t, take_hex n' toks' with
                            | Some z, Some (l, rest) => Some (z :: l, rest)
                            | _, _ => None end
            | [] => None end
  end.

Definition group_of (tok : bytes) : option (bytes * bytes * Z) :=
  match split_on 61 tok with
  | [s; n; c] => match unhxb s, unhxb n, zdec c with
                 | Some s', Some n', Some c' => Some (s', n', c')
                 | _, _, _ => None end
  | _ => None
  end.

(* table <thr_num> <thr_den> <22 nums> <12 footnote hex> <group>* *)
Definition parse_report (args : list bytes) : option (thr * report) :=
  match args with
  | tn :: td :: rest =>
      match zdec tn, zdec td, take_nums 22 rest with
      | Some n, Some d, Some (nums, rest1) =>
          match take_hex 12 rest1 with
          | Some (fns, rest2) =>
              let gs := flat_map (fun t => match group_of t with Some g => [g] | None => [] end) rest2 in
              Some (mk_thr n d, mk_report nums fns gs)
          | None => None end
      | _, _, _ => None end
  | _ => None
  end.

Definition show_level (i : item) : bytes :=
  let a := alert_of i in
  it_symbol i ++ [61] ++ zshow (fnum a) ++ [47] ++ zshow (fden a).

Definition dispatch_output (cmd : bytes) (args : list bytes) : option bytes :=
  if beqb cmd (str "table") then
    Some match parse_report args with
         | Some (t, r) => hxb (table_string (contents r) t)
         | None => err "bad report" end
  else if beqb cmd (str "levels") then
    Some match parse_report args with
         | Some (t, r) => join_with [SP] (map show_level (items_of (contents r)))
         | None => err "bad report" end
  else None.
