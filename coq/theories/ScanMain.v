(* ScanMain.v — the scan model computes the specification.  Part A: the
   tree and tag phases are runs of the deferred machine; events produced. *)
From Coq Require Import Permutation.
From GS Require Import GoSem Counts Repo RepoProofs Deferred Scan ScanProofs ScanTree.
Open Scope N_scope.

(* events that change no number *)
Definition numeric (e : ev) : bool :=
  match e with EvEntry _ _ _ | EvCommitTree _ _ => false | _ => true end.

Lemma fold_record_numeric evs : forall h, fold_left record evs h = fold_left record (filter numeric evs) h.
Proof.
  induction evs as [|e evs IH]; intros h; [reflexivity|]. cbn [filter fold_left].
  destruct e; cbn [numeric fold_left]; try apply IH; cbn [record]; apply IH.
Qed.

Lemma skipn_app_exact {A} (l1 l2 : list A) : skipn (length l1) (l1 ++ l2) = l2.
Proof. induction l1; simpl; auto. Qed.

Section Trees.
Variable r : repo.
Hypothesis Hwf : wf_b r = true.
Variable blobs : fmap N.

Definition TN := tnodes blobs r.
Definition TSPEC := tsz_of blobs r.
Definition TRun := run tsz tcontrib bytes tapply ts_init tcontrib_of TN.
Definition TInv := Inv tsz tcontrib bytes tapply ts_init tcontrib_of TN (ids r) TSPEC.

Definition tree_ev (p : oid * tsz) : ev :=
  EvTree (fst p) (snd p) (sat32 (tree_size_of r (fst p))) (tree_nentries r (fst p)).

Lemma numeric_imm t es : filter numeric (imm_events t es) = [].
Proof.
  unfold imm_events. induction es as [|e es IH]; [reflexivity|]. cbn [flat_map]. rewrite filter_app, IH, app_nil_r.
  destruct (entry_kind (e_mode e)); reflexivity.
Qed.

Lemma numeric_tlog l : filter numeric (map (tlog_event r) l) = map tree_ev (fins tsz bytes l).
Proof.
  induction l as [|e l IH]; [reflexivity|]. destruct e as [n v|p c pl]; cbn [map filter tlog_event numeric fins flat_map app].
  - rewrite IH. reflexivity.
  - exact IH.
Qed.

Lemma tnodes_some t ds : TN t = Some ds ->
  exists s es, lookup r t = Some (Tree s es) /\ dentries blobs es = Some ds.
Proof.
  unfold TN, tnodes. destruct (lookup r t) as [[| s es | |]|]; try discriminate. eauto.
Qed.

Definition TLsum := Lsum tsz bytes (ids r).
Definition tnch := nchildren tcontrib bytes TN.

Lemma feed_trees_run fuel : forall ts s evs dl,
  TInv dl None s [] -> NoDup ts -> (forall t, In t ts -> ~ dl t) ->
  (forall t, In t ts -> exists ds, TN t = Some ds) ->
  (2 * (TLsum s + list_sum (map tnch ts)) <= fuel)%nat ->
  match feed_trees fuel r blobs ts s evs with
  | SOk (s', evs') =>
      TRun fuel ts s = Some s' /\
      exists l, log _ _ s' = log _ _ s ++ l /\
                filter numeric evs' = filter numeric evs ++ map tree_ev (fins tsz bytes l)
  | SPanic _ => False
  | SErr _ => False
  end.
Proof.
  induction ts as [|t ts IH]; intros s evs dl I Hnd Hfresh Hn Hfuel.
  - simpl. split; [reflexivity|]. exists []. rewrite !app_nil_r. auto.
  - cbn [feed_trees].
    destruct (done _ _ s t) as [v|] eqn:Hd.
    { exfalso. destruct (inv_done _ _ _ _ _ _ _ _ _ _ _ _ _ I _ _ Hd) as (_ & _ & Hdl).
      apply (Hfresh t); [now left|assumption]. }
    destruct (Hn t (or_introl eq_refl)) as (ds & Hds).
    destruct (tnodes_some t ds Hds) as (sz & es & Hl & Hde). rewrite Hl, Hde.
    destruct (tnodes_wf_node r Hwf blobs t ds Hds) as [Hin Hch].
    change (map tnch (t :: ts)) with (tnch t :: map tnch ts) in Hfuel.
    change (list_sum (tnch t :: map tnch ts)) with (tnch t + list_sum (map tnch ts))%nat in Hfuel.
    assert (Etn : tnch t = length (children tcontrib bytes ds)) by (unfold tnch, nchildren; now rewrite Hds).
    rewrite Etn in Hfuel.
    destruct (deliver_terminates tsz tcontrib bytes tapply tapply_comm ts_init tcontrib_of TN (ids r) (ids_nodup r Hwf) TSPEC
                (fun n es0 H0 => tnodes_spec_eq r Hwf blobs n es0 H0) dl fuel t ds s I (Hfresh t (or_introl eq_refl)) Hin Hds Hch
                ltac:(unfold TLsum in Hfuel; lia)) as (s1' & Hdel' & HLs).
    destruct (deliver _ _ _ tapply ts_init tcontrib_of fuel t ds s) as [s1|] eqn:Hdel; [|discriminate].
    inversion Hdel'; subst s1'.
    assert (I1 : TInv (dl_add dl t) None s1 []).
    { eapply (deliver_inv tsz tcontrib bytes tapply tapply_comm ts_init tcontrib_of TN (ids r) (ids_nodup r Hwf) TSPEC);
        eauto.
      - intros n es0 H0. apply (tnodes_spec_eq r Hwf blobs n es0 H0).
      - apply (Hfresh t). now left. }
    destruct (deliver_log _ _ _ _ _ _ _ _ _ _ _ Hdel) as (l1 & Hl1).
    inversion Hnd as [|? ? Hnt Hnd']; subst.
    specialize (IH s1 (evs ++ imm_events t es ++ map (tlog_event r) (skipn (length (log _ _ s)) (log _ _ s1)))
                   (dl_add dl t) I1 Hnd').
    assert (Hfresh' : forall t', In t' ts -> ~ dl_add dl t t').
    { intros t' Ht' [Hd'| ->]; [|contradiction]. apply (Hfresh t'); [now right|assumption]. }
    specialize (IH Hfresh' (fun t' Ht' => Hn t' (or_intror Ht')) ltac:(unfold TLsum in *; lia)).
    destruct (feed_trees fuel r blobs ts s1 _) as [[s' evs']|m|m]; try assumption.
    destruct IH as (Hrun & l & Hlog & Hev).
    split.
    + unfold TRun. cbn [run]. fold TN. rewrite Hds. unfold TRun in Hrun. rewrite Hdel. exact Hrun.
    + exists (l1 ++ l). split; [rewrite Hlog, Hl1; now rewrite app_assoc|].
      rewrite Hev. rewrite Hl1, skipn_app_exact. rewrite !filter_app, numeric_imm, numeric_tlog.
      rewrite fins_app, map_app. cbn [app]. now rewrite app_assoc.
Qed.

End Trees.

(* ---------------- tags ---------------- *)
Definition gnodes (r : repo) (g : oid) : option (list (dentry N unit)) :=
  match lookup r g with
  | Some (Tag _ target k) => Some (match k with KTag => [Child N unit target tt] | _ => [] end)
  | _ => None
  end.

Lemma tdepth_cons o1 ob1 r o : o <> o1 -> tdepth ((o1, ob1) :: r) o = tdepth r o.
Proof. intros H. simpl. destruct (N.eqb_spec o o1); [contradiction|reflexivity]. Qed.

Lemma tdepth_tag : forall r0, wf_b r0 = true -> forall g s t k, lookup r0 g = Some (Tag s t k) ->
  tdepth r0 g = match k with KTag => 1 + tdepth r0 t | _ => 1 end.
Proof.
  induction r0 as [|[o1 ob1] r0 IH]; intros Hw g s t k Hl; [discriminate|].
  apply wf_cons in Hw. destruct Hw as (H1 & H2 & H3). simpl in Hl.
  destruct (N.eqb_spec g o1) as [->|Hne].
  - inversion Hl; subst ob1. simpl. rewrite N.eqb_refl. destruct k; try reflexivity.
    assert (Hi : In t (ids r0)) by (eapply obj_ok_refs; [exact H2|simpl; now left]).
    destruct (N.eqb_spec t o1) as [->|]; [contradiction|reflexivity].
  - rewrite tdepth_cons by assumption. rewrite (IH H3 g s t k Hl). destruct k; try reflexivity.
    destruct (wf_lookup r0 H3 g _ Hl t ltac:(simpl; now left)) as [Hi Hd].
    rewrite tdepth_cons; [reflexivity|]. intros ->. contradiction.
Qed.

Section Tags.
Variable r : repo.
Hypothesis Hwf : wf_b r = true.

Definition GN := gnodes r.
Definition GSPEC (g : oid) : N := sat32 (tdepth r g).
Definition GRun := run N N unit tag_apply 1 tag_contrib GN.
Definition GInv := Inv N N unit tag_apply 1 tag_contrib GN (ids r) GSPEC.

Definition tag_ev (p : oid * N) : ev := EvTag (fst p) (snd p) (sat32 (tag_size_of r (fst p))).

Lemma gnodes_spec_eq n es : GN n = Some es ->
  GSPEC n = app_all N N tag_apply (map (contrib_of N N unit tag_contrib GSPEC) es) 1.
Proof.
  unfold GN, gnodes. destruct (lookup r n) as [[| | |s t k]|] eqn:Hl; try discriminate.
  intros H. inversion H; subst. unfold GSPEC. rewrite (tdepth_tag r Hwf n s t k Hl).
  destruct k; unfold app_all; cbn [map fold_left contrib_of tag_contrib]; unfold tag_apply, sat_add32, GSPEC;
    try reflexivity.
  unfold tag_contrib. rewrite sat32_add_r. reflexivity.
Qed.

Lemma gnodes_wf_node g es : GN g = Some es ->
  In g (ids r) /\ forall n pl, In (Child N unit n pl) es -> n <> g /\ In n (ids r).
Proof.
  unfold GN, gnodes. destruct (lookup r g) as [[| | |s t k]|] eqn:Hl; try discriminate. intros H. inversion H; subst.
  split; [eapply lookup_In; eauto|]. intros n pl Hin.
  destruct k; try (now destruct Hin). destruct Hin as [E|[]]. inversion E; subst.
  destruct (wf_lookup r Hwf g _ Hl n ltac:(simpl; now left)) as [Hi Hd]. split; assumption.
Qed.

Lemma gnodes_rank t es n pl : GN t = Some es -> In (Child N unit n pl) es -> (rank r n < rank r t)%nat.
Proof.
  unfold GN, gnodes. destruct (lookup r t) as [[| | |s tg k]|] eqn:Hl; try discriminate. intros H Hin. inversion H; subst.
  destruct k; try (now destruct Hin). destruct Hin as [E|[]]. inversion E; subst.
  eapply rank_child_lt; eauto. simpl. now left.
Qed.

Lemma numeric_glog l : filter numeric (flat_map (glog_events r) l) = map tag_ev (fins N unit l).
Proof.
  induction l as [|e l IH]; [reflexivity|]. destruct e as [n v|p c pl]; cbn [flat_map glog_events fins app filter numeric map].
  - rewrite IH. reflexivity.
  - exact IH.
Qed.

Definition GLsum := Lsum N unit (ids r).
Definition gnch := nchildren N unit GN.

Lemma feed_tags_run fuel : forall gs s evs dl,
  GInv dl None s [] -> NoDup gs -> (forall t, In t gs -> ~ dl t) ->
  (forall t, In t gs -> exists ds, GN t = Some ds) ->
  (2 * (GLsum s + list_sum (map gnch gs)) <= fuel)%nat ->
  match feed_tags fuel r gs s evs with
  | SOk (s', evs') =>
      GRun fuel gs s = Some s' /\
      exists l, log _ _ s' = log _ _ s ++ l /\
                filter numeric evs' = filter numeric evs ++ map tag_ev (fins N unit l)
  | SPanic _ => False
  | SErr _ => False
  end.
Proof.
  induction gs as [|t gs IH]; intros s evs dl I Hnd Hfresh Hn Hfuel.
  - simpl. split; [reflexivity|]. exists []. rewrite !app_nil_r. auto.
  - cbn [feed_tags].
    destruct (done _ _ s t) as [v|] eqn:Hd.
    { exfalso. destruct (inv_done _ _ _ _ _ _ _ _ _ _ _ _ _ I _ _ Hd) as (_ & _ & Hdl).
      apply (Hfresh t); [now left|assumption]. }
    destruct (Hn t (or_introl eq_refl)) as (ds & Hds).
    pose proof Hds as Hds0. unfold GN, gnodes in Hds0.
    destruct (lookup r t) as [[| | |sz tg k]|] eqn:Hl; try discriminate. inversion Hds0 as [Hds1]. rewrite Hds1.
    destruct (gnodes_wf_node t ds Hds) as [Hin Hch].
    change (map gnch (t :: gs)) with (gnch t :: map gnch gs) in Hfuel.
    change (list_sum (gnch t :: map gnch gs)) with (gnch t + list_sum (map gnch gs))%nat in Hfuel.
    assert (Etn : gnch t = length (children N unit ds)) by (unfold gnch, nchildren; now rewrite Hds).
    rewrite Etn in Hfuel.
    destruct (deliver_terminates N N unit tag_apply tag_apply_comm 1 tag_contrib GN (ids r) (ids_nodup r Hwf) GSPEC
                gnodes_spec_eq dl fuel t ds s I (Hfresh t (or_introl eq_refl)) Hin Hds Hch
                ltac:(unfold GLsum in Hfuel; lia)) as (s1' & Hdel' & HLs).
    destruct (deliver _ _ _ tag_apply 1 tag_contrib fuel t ds s) as [s1|] eqn:Hdel; [|discriminate].
    inversion Hdel'; subst s1'.
    assert (I1 : GInv (dl_add dl t) None s1 []).
    { eapply (deliver_inv N N unit tag_apply tag_apply_comm 1 tag_contrib GN (ids r) (ids_nodup r Hwf) GSPEC); eauto.
      - exact gnodes_spec_eq.
      - apply (Hfresh t). now left. }
    destruct (deliver_log _ _ _ _ _ _ _ _ _ _ _ Hdel) as (l1 & Hl1).
    inversion Hnd as [|? ? Hnt Hnd']; subst.
    specialize (IH s1 (evs ++ flat_map (glog_events r) (skipn (length (log _ _ s)) (log _ _ s1)))
                   (dl_add dl t) I1 Hnd').
    assert (Hfresh' : forall t', In t' gs -> ~ dl_add dl t t').
    { intros t' Ht' [Hd'| ->]; [|contradiction]. apply (Hfresh t'); [now right|assumption]. }
    specialize (IH Hfresh' (fun t' Ht' => Hn t' (or_intror Ht')) ltac:(unfold GLsum in *; lia)).
    destruct (feed_tags fuel r gs s1 _) as [[s' evs']|m|m]; try assumption.
    destruct IH as (Hrun & l & Hlog & Hev).
    split.
    + unfold GRun. cbn [run]. fold GN. rewrite Hds. unfold GRun in Hrun. rewrite Hdel. exact Hrun.
    + exists (l1 ++ l). split; [rewrite Hlog, Hl1; now rewrite app_assoc|].
      rewrite Hev. rewrite Hl1, skipn_app_exact. rewrite !filter_app, numeric_glog.
      rewrite fins_app, map_app. now rewrite app_assoc.
Qed.

End Tags.

(* ---------------- commits ---------------- *)
Definition osize (r : repo) (o : oid) : N := match lookup r o with Some ob => size_of ob | None => 0 end.
Definition onentries (r : repo) (o : oid) : N := match lookup r o with Some ob => nentries ob | None => 0 end.
Definition onparents (r : repo) (o : oid) : N := match lookup r o with Some ob => nparents ob | None => 0 end.

Lemma cdepth_cons o1 ob1 r o : o <> o1 -> cdepth ((o1, ob1) :: r) o = cdepth r o.
Proof. intros H. simpl. destruct (N.eqb_spec o o1); [contradiction|reflexivity]. Qed.

Lemma map_ext_in' {A B} (f g : A -> B) l : (forall a, In a l -> f a = g a) -> map f l = map g l.
Proof. induction l as [|a l IH]; intros H; simpl; [reflexivity|]. rewrite (H a (or_introl eq_refl)), IH; auto. intros; apply H; now right. Qed.

Lemma cdepth_here o1 s t ps r : cdepth ((o1, Commit s t ps) :: r) o1 = 1 + maxN (map (cdepth r) ps).
Proof. cbn [cdepth]. now rewrite N.eqb_refl. Qed.

Lemma cdepth_commit : forall r0, wf_b r0 = true -> forall c s t ps, lookup r0 c = Some (Commit s t ps) ->
  cdepth r0 c = 1 + maxN (map (cdepth r0) ps).
Proof.
  induction r0 as [|[o1 ob1] r0 IH]; intros Hw c s t ps Hl; [discriminate|].
  apply wf_cons in Hw. destruct Hw as (H1 & H2 & H3). simpl in Hl.
  destruct (N.eqb_spec c o1) as [->|Hne].
  - inversion Hl; subst ob1. rewrite cdepth_here. f_equal. f_equal. apply map_ext_in'. intros p Hp.
    assert (Hi : In p (ids r0)) by (eapply obj_ok_refs; [exact H2|simpl; now right]).
    rewrite cdepth_cons; [reflexivity|]. intros ->. contradiction.
  - rewrite cdepth_cons by assumption. rewrite (IH H3 c s t ps Hl). f_equal. f_equal. apply map_ext_in'. intros p Hp.
    destruct (wf_lookup r0 H3 c _ Hl p ltac:(simpl; now right)) as [Hi Hd].
    rewrite cdepth_cons; [reflexivity|]. intros ->. contradiction.
Qed.

Section Commits.
Variable r : repo.
Hypothesis Hwf : wf_b r = true.
Variable tdone : fmap tsz.

Definition commit_ev (c : oid) : ev :=
  EvCommit c (sat32 (cdepth r c)) (sat32 (osize r c)) (sat32 (u64 (onparents r c))).

Lemma pdepth_spec cdone : forall ps acc,
  (forall p, In p ps -> cdone p = Some (sat32 (cdepth r p))) ->
  pdepth cdone ps acc = Some (N.max acc (sat32 (maxN (map (cdepth r) ps)))).
Proof.
  induction ps as [|p ps IH]; intros acc H; simpl.
  - f_equal. unfold sat32. lia.
  - rewrite (H p (or_introl eq_refl)). rewrite IH by (intros; apply H; now right).
    f_equal. rewrite mx_max, <- sat32_max. lia.
Qed.

Lemma feed_commits_ok : forall cs cdone evs,
  (forall c d, cdone c = Some d -> d = sat32 (cdepth r c)) ->
  NoDup cs -> (forall c, In c cs -> cdone c = None) ->
  (forall c, In c cs -> exists s t ps, lookup r c = Some (Commit s t ps) /\ tdone t <> None) ->
  (forall pre c post s t ps, cs = pre ++ c :: post -> lookup r c = Some (Commit s t ps) ->
     forall p, In p ps -> cdone p <> None \/ In p pre) ->
  exists cdone', feed_commits r tdone cs cdone evs = SOk (cdone', evs ++ map commit_ev cs).
Proof.
  induction cs as [|c cs IH]; intros cdone evs Hinv Hnd Hnone Hlk Hpar.
  - simpl. rewrite app_nil_r. eauto.
  - cbn [feed_commits]. rewrite (Hnone c (or_introl eq_refl)).
    destruct (Hlk c (or_introl eq_refl)) as (s & t & ps & Hl & Ht). rewrite Hl.
    destruct (tdone t) as [tv|]; [|congruence].
    assert (Hps : forall p, In p ps -> cdone p = Some (sat32 (cdepth r p))).
    { intros p Hp. destruct (Hpar [] c cs s t ps eq_refl Hl p Hp) as [H|[]].
      destruct (cdone p) as [d|] eqn:E; [|congruence]. now rewrite (Hinv p d E). }
    rewrite (pdepth_spec cdone ps 0 Hps). cbv zeta.
    set (d := sat_add32 (N.max 0 (sat32 (maxN (map (cdepth r) ps)))) 1).
    assert (Hd : d = sat32 (cdepth r c)).
    { unfold d. rewrite (cdepth_commit r Hwf c s t ps Hl). unfold sat_add32. rewrite N.max_0_l, sat32_add_l. f_equal. lia. }
    inversion Hnd as [|? ? Hnc Hnd']; subst.
    destruct (IH (fupd cdone c (Some d)) (evs ++ [EvCommit c d (sat32 s) (sat32 (u64 (N.of_nat (length ps))))])) as (cd' & Hf).
    + intros c0 d0. unfold fupd. destruct (N.eqb_spec c0 c) as [->|]; [intros E; inversion E; subst; exact Hd|apply Hinv].
    + assumption.
    + intros c0 Hc0. unfold fupd. destruct (N.eqb_spec c0 c) as [->|]; [contradiction|]. apply Hnone. now right.
    + intros c0 Hc0. apply Hlk. now right.
    + intros pre c0 post s0 t0 ps0 Hcs Hl0 p Hp.
      destruct (Hpar (c :: pre) c0 post s0 t0 ps0 ltac:(simpl; now rewrite Hcs) Hl0 p Hp) as [H|[<-|H]].
      * left. unfold fupd. destruct (N.eqb p c); [discriminate|assumption].
      * left. unfold fupd. rewrite N.eqb_refl. discriminate.
      * now right.
    + exists cd'. rewrite Hf. f_equal. f_equal. rewrite <- app_assoc. f_equal. cbn [map app]. f_equal.
      unfold commit_ev, osize, onparents. rewrite Hl, <- Hd. reflexivity.
Qed.

End Commits.
