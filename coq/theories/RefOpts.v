(* RefOpts.v — model of reference selection and grouping:
   git/ref_filter.go (filters, combiners, prefix rule, regexp anchoring),
   internal/refopts/{filter_value,filter_group_value,ref_group,ref_group_builder}.go
   (options in command-line order, refgroup forest from gitconfig, Categorize). *)
From Coq Require Import String.
From GS Require Import GoSem Text.
Open Scope N_scope.

(* ------------------------------------------------------------------ regexps *)
(* The fragment of Go's regexp/syntax that is modelled.  Subjects are byte strings read as UTF-8 the way Go's matcher reads
   them (utf8.DecodeRune): `.` and a character class consume one encoded code point, and every byte of an invalid sequence
   counts as U+FFFD of width 1. *)
Inductive re :=
| RChar (c : N)
| RAny                                   (* .  : any code point but LF *)
| RClass (neg : bool) (rs : list (N * N)) (* [a-z0-9], [^/] *)
| REmpty
| RCat (a b : re)
| RAlt (a b : re)
| RStar (a : re) | RPlus (a : re) | ROpt (a : re)
| RBol | REol.                           (* ^ and $ (no multi-line flag) *)

Definition in_class (neg : bool) (rs : list (N * N)) (c : N) : bool :=
  xorb neg (existsb (fun p => (fst p <=? c) && (c <=? snd p)) rs).

Fixpoint nodupn (l : list nat) : list nat :=
  match l with
  | [] => []
  | x :: l' => if existsb (Nat.eqb x) l' then nodupn l' else x :: nodupn l'
  end.

(* iterate a one-step relation on position sets to a fixed point (fuel = number of positions) *)
Fixpoint closure (fuel : nat) (step : nat -> list nat) (acc : list nat) : list nat :=
  match fuel with
  | O => acc
  | S f =>
      let next := nodupn (acc ++ flat_map step acc) in
      if Nat.eqb (length next) (length acc) then acc else closure f step next
  end.

(* utf8.DecodeRune at position i: (code point, width) *)
Definition cont_byte (x : N) : bool := (128 <=? x) && (x <=? 191).
Definition rune_at (s : bytes) (i : nat) : option (N * nat) :=
  match nth_error s i with
  | None => None
  | Some b0 =>
    if b0 <? 128 then Some (b0, 1%nat)
    else
      let bad := Some (65533, 1%nat) in
      match nth_error s (S i) with
      | None => bad
      | Some b1 =>
        if (194 <=? b0) && (b0 <=? 223) then
          (if cont_byte b1 then Some ((b0 - 192) * 64 + (b1 - 128), 2%nat) else bad)
        else
          let lo1 := if b0 =? 224 then 160 else if b0 =? 240 then 144 else 128 in
          let hi1 := if b0 =? 237 then 159 else if b0 =? 244 then 143 else 191 in
          if negb ((lo1 <=? b1) && (b1 <=? hi1)) then bad else
          match nth_error s (S (S i)) with
          | None => bad
          | Some b2 =>
            if negb (cont_byte b2) then bad
            else if (224 <=? b0) && (b0 <=? 239) then Some ((b0 - 224) * 4096 + (b1 - 128) * 64 + (b2 - 128), 3%nat)
            else if (240 <=? b0) && (b0 <=? 244) then
              match nth_error s (S (S (S i))) with
              | None => bad
              | Some b3 => if cont_byte b3 then Some ((b0 - 240) * 262144 + (b1 - 128) * 4096 + (b2 - 128) * 64 + (b3 - 128), 4%nat) else bad
              end
            else bad
          end
      end
  end.

(* ends e s i : all j such that e matches s[i..j) (s is the whole subject, for the anchors) *)
Fixpoint ends (e : re) (s : bytes) (i : nat) : list nat :=
  match e with
  | RChar c => match nth_error s i with Some x => if x =? c then [S i] else [] | None => [] end
  | RAny => match rune_at s i with Some (r, w) => if r =? 10 then [] else [(i + w)%nat] | None => [] end
  | RClass neg rs => match rune_at s i with Some (r, w) => if in_class neg rs r then [(i + w)%nat] else [] | None => [] end
  | REmpty => [i]
  | RCat a b => nodupn (flat_map (ends b s) (ends a s i))
  | RAlt a b => nodupn (ends a s i ++ ends b s i)
  | RStar a => closure (S (length s)) (ends a s) [i]
  | RPlus a => nodupn (flat_map (fun j => closure (S (length s)) (ends a s) [j]) (ends a s i))
  | ROpt a => nodupn (i :: ends a s i)
  | RBol => if Nat.eqb i 0 then [i] else []
  | REol => if Nat.eqb i (length s) then [i] else []
  end.

(* regexp.MatchString: unanchored search *)
Definition search (e : re) (s : bytes) : bool :=
  existsb (fun i => match ends e s i with [] => false | _ => true end) (seq 0 (S (length s))).

(* matches the entire subject *)
Definition full_match (e : re) (s : bytes) : bool := existsb (Nat.eqb (length s)) (ends e s 0).

(* What compiling "^" + p + "$" means when p denotes e: Go's parser gives
   alternation the lowest precedence, so the anchors attach to the first and
   the last alternative only.  (Modelled behaviour of regexp/syntax.) *)
Fixpoint alts (e : re) : list re := match e with RAlt a b => alts a ++ alts b | _ => [e] end.
Fixpoint alt_of (l : list re) : re :=
  match l with [] => REmpty | [a] => a | a :: l' => RAlt a (alt_of l') end.
Definition wrap_old (e : re) : re :=
  match alts e with
  | [] => RCat RBol REol
  | [a] => RCat RBol (RCat a REol)
  | a :: rest =>
      let lst := List.last rest a in
      let mid := removelast rest in
      alt_of ((RCat RBol a) :: mid ++ [RCat lst REol])
  end.
(* "^(?:" + p + ")$": the group protects the alternation *)
Definition wrap_new (e : re) : re := RCat RBol (RCat e REol).

(* ------------------------------------------------------------------ filters *)
(* filters that do not mention refgroups (ref_filter.go) *)
Inductive bfilt :=
| BAll | BNone
| BPrefix (p : bytes)
| BRegex (e : re)                (* RegexpFilter after the fix: whole-name match of e *)
| BInv (f : bfilt) | BUnion (a b : bfilt) | BInter (a b : bfilt).

(* prefixFilter.Filter — ref_filter.go:113-120 (PrefixFilter("") is AllReferencesFilter) *)
Definition prefix_match (p r : bytes) : bool :=
  match p with
  | [] => true
  | _ =>
    if has_suffix p [47] then has_prefix r p
    else has_prefix r p && ((length r =? length p)%nat || match nth_error r (length p) with Some c => c =? 47 | None => false end)
  end.

Fixpoint eval_b (f : bfilt) (r : bytes) : bool :=
  match f with
  | BAll => true | BNone => false
  | BPrefix p => prefix_match p r
  | BRegex e => search (wrap_new e) r
  | BInv f => negb (eval_b f r)
  | BUnion a b => eval_b a r || eval_b b r
  | BInter a b => eval_b a r && eval_b b r
  end.

(* Include.Combine / Exclude.Combine with a possibly-nil left operand *)
Definition include_b (f1 : option bfilt) (f2 : bfilt) : bfilt :=
  match f1 with None => f2 | Some f => BUnion f f2 end.
Definition exclude_b (f1 : option bfilt) (f2 : bfilt) : bfilt :=
  match f1 with None => BInv f2 | Some f => BInter f (BInv f2) end.

(* ------------------------------------------------------------------ refgroups *)
(* a refgroup with its subgroups in creation order *)
Inductive gtree := GNode (sym : bytes) (name : bytes) (f : option bfilt) (subs : list gtree).

Definition g_sym (g : gtree) : bytes := match g with GNode s _ _ _ => s end.
Definition g_name (g : gtree) : bytes := match g with GNode _ n _ _ => n end.
Definition g_filter (g : gtree) : option bfilt := match g with GNode _ _ f _ => f end.
Definition g_subs (g : gtree) : list gtree := match g with GNode _ _ _ l => l end.

(* refGroupMatches — filter_group_value.go:67-82 *)
Fixpoint group_matches (g : gtree) (r : bytes) : bool :=
  match g with
  | GNode _ _ (Some f) _ => eval_b f r
  | GNode _ _ None subs => (fix any (l : list gtree) : bool :=
                              match l with [] => false | sg :: l' => group_matches sg r || any l' end) subs
  end.

(* the chain of groups from just below the top-level group down to the group
   itself; refGroupPasses over the proper ancestors — filter_group_value.go:84-96 *)
Fixpoint find_path (g : gtree) (sym : bytes) : option (list gtree) :=
  match g with
  | GNode s _ _ subs =>
      if beqb s sym then Some [g]
      else (fix first (l : list gtree) : option (list gtree) :=
              match l with
              | [] => None
              | sg :: l' => match find_path sg sym with
                            | Some p => Some (g :: p)
                            | None => first l'
                            end
              end) subs
  end.

Definition passes (g : gtree) (r : bytes) : bool :=
  match g_filter g with None => true | Some f => eval_b f r end.

(* refGroupFilter.Filter for the group with symbol [sym] under top-level [top] *)
Definition group_filter (top : gtree) (sym : bytes) (r : bytes) : bool :=
  match find_path top sym with
  | Some (_ :: chain) =>      (* drop the top-level group itself *)
      match rev chain with
      | g :: ancestors => forallb (fun a => passes a r) ancestors && group_matches g r
      | [] => false
      end
  | _ => false
  end.

(* top-level filter: may mention refgroups *)
Inductive tfilt :=
| TB (f : bfilt) | TGroup (sym : bytes)
| TInv (f : tfilt) | TUnion (a b : tfilt) | TInter (a b : tfilt).

Fixpoint eval_t (top : gtree) (f : tfilt) (r : bytes) : bool :=
  match f with
  | TB b => eval_b b r
  | TGroup sym => group_filter top sym r
  | TInv f => negb (eval_t top f r)
  | TUnion a b => eval_t top a r || eval_t top b r
  | TInter a b => eval_t top a r && eval_t top b r
  end.

Definition include_t (f1 : option tfilt) (f2 : tfilt) : tfilt :=
  match f1 with None => f2 | Some f => TUnion f f2 end.
Definition exclude_t (f1 : option tfilt) (f2 : tfilt) : tfilt :=
  match f1 with None => TInv f2 | Some f => TInter f (TInv f2) end.

(* one reference option, in command-line order: polarity and pattern *)
Record ropt := mk_ropt { ro_include : bool; ro_pat : tfilt }.

Definition apply_ropt (acc : option tfilt) (o : ropt) : option tfilt :=
  Some (if ro_include o then include_t acc (ro_pat o) else exclude_t acc (ro_pat o)).

(* RefGroupBuilder.Finish: no option at all => all references, or none when ROOTs were given *)
Definition top_filter (opts : list ropt) (default_all : bool) : tfilt :=
  match fold_left apply_ropt opts None with
  | Some f => f
  | None => if default_all then TB BAll else TB BNone
  end.

(* refGroup.collectSymbols — ref_group.go:33-75.  [other]: symbol of the
   "Other" bucket if the group has subgroups. *)
Definition other_sym (sym : bytes) : bytes :=
  match sym with [] => str "other" | _ => sym ++ str ".other" end.

Fixpoint collect (g : gtree) (own : bytes -> bool) (r : bytes) : bool * list bytes :=
  match g with
  | GNode sym _ f subs =>
      let filt := match f with Some b => Some (eval_b b r) | None => None end in
      match filt with
      | None =>
          (fix go (l : list gtree) (walk : bool) (syms : list bytes) : bool * list bytes :=
             match l with
             | [] => (walk, syms)
             | sg :: l' =>
                 let '(w, ss) := collect sg own r in
                 let syms1 := match ss, syms with _ :: _, [] => [sym] | _, _ => syms end in
                 go l' (walk || w) (syms1 ++ ss)
             end) subs false []
      | Some false => (false, [])
      | Some true =>
          let syms := (fix go (l : list gtree) (syms : list bytes) : list bytes :=
                         match l with
                         | [] => syms
                         | sg :: l' => go l' (syms ++ snd (collect sg own r))
                         end) subs [sym] in
          (true, match subs, syms with
                 | _ :: _, [_] => syms ++ [other_sym sym]
                 | _, _ => syms
                 end)
      end
  end.

(* the top-level group: symbol "", filter = the top-level filter (always set after Finish) *)
Definition categorize (top_subs : list gtree) (topf : bytes -> bool) (r : bytes) : bool * list bytes :=
  if topf r then
    let syms := fold_left (fun syms sg => syms ++ snd (collect sg (fun _ => true) r)) top_subs [[]] in
    (true, match top_subs, syms with
           | _ :: _, [_] => syms ++ [str "other"]
           | _, _ => syms
           end)
  else (false, [str "ignored"]).

(* ------------------------------------------------------------------ builder *)
(* flat store of groups in creation order; subgroups of a group are the later
   nodes naming it as parent, in creation order (RefGroupBuilder.getGroup) *)
Record gnode := mk_gnode { n_sym : bytes; n_name : bytes; n_filter : option bfilt; n_parent : bytes }.

Definition DOT : N := 46.

(* parentName: the symbol up to the last '.', or "" *)
Fixpoint last_dot (s : bytes) (i : nat) (acc : option nat) : option nat :=
  match s with
  | [] => acc
  | c :: s' => last_dot s' (S i) (if c =? DOT then Some i else acc)
  end.
Definition parent_name (sym : bytes) : bytes :=
  match last_dot sym 0 None with Some i => firstn i sym | None => [] end.
(* splitKey: (symbol, field) at the last '.' *)
Definition split_key (key : bytes) : bytes * bytes :=
  match last_dot key 0 None with Some i => (firstn i key, skipn (S i) key) | None => ([], key) end.

Definition has_node (st : list gnode) (sym : bytes) : bool := existsb (fun n => beqb (n_sym n) sym) st.

(* getGroup with implicit parents; fuel bounds the number of dots *)
Fixpoint get_group (fuel : nat) (st : list gnode) (sym : bytes) : list gnode :=
  if has_node st sym then st
  else match fuel with
       | O => st
       | S f =>
           let p := parent_name sym in
           let st1 := get_group f st p in
           st1 ++ [mk_gnode sym [] None p]
       end.

Definition upd_node (st : list gnode) (sym : bytes) (f : gnode -> gnode) : list gnode :=
  map (fun n => if beqb (n_sym n) sym then f n else n) st.

Inductive gentry := GName (v : bytes) | GInc (p : bytes) | GIncRe (e : re) | GExc (p : bytes) | GExcRe (e : re).

Definition pfilter (p : bytes) : bfilt := match p with [] => BAll | _ => BPrefix p end.

Definition apply_gentry (n : gnode) (e : gentry) : gnode :=
  match e with
  | GName v => mk_gnode (n_sym n) v (n_filter n) (n_parent n)
  | GInc p => mk_gnode (n_sym n) (n_name n) (Some (include_b (n_filter n) (pfilter p))) (n_parent n)
  | GIncRe e => mk_gnode (n_sym n) (n_name n) (Some (include_b (n_filter n) (BRegex e))) (n_parent n)
  | GExc p => mk_gnode (n_sym n) (n_name n) (Some (exclude_b (n_filter n) (pfilter p))) (n_parent n)
  | GExcRe e => mk_gnode (n_sym n) (n_name n) (Some (exclude_b (n_filter n) (BRegex e))) (n_parent n)
  end.

(* \d{2}/\d+/\d+ for refs/changes *)
Definition rdigit : re := RClass false [(48, 57)].
Fixpoint rlit (s : bytes) : re := match s with [] => REmpty | [c] => RChar c | c :: s' => RCat (RChar c) (rlit s') end.
Definition changes_re : re :=
  RCat (rlit (str "refs/changes/"))
    (RCat rdigit (RCat rdigit (RCat (RChar 47) (RCat (RPlus rdigit) (RCat (RChar 47) (RPlus rdigit)))))).

Definition std_groups : list gnode :=
  [ mk_gnode [] (str "Refs to walk") None [];
    mk_gnode (str "branches") (str "Branches") (Some (BPrefix (str "refs/heads/"))) [];
    mk_gnode (str "tags") (str "Tags") (Some (BPrefix (str "refs/tags/"))) [];
    mk_gnode (str "remotes") (str "Remote-tracking refs") (Some (BPrefix (str "refs/remotes/"))) [];
    mk_gnode (str "pulls") (str "Pull request refs") (Some (BPrefix (str "refs/pull/"))) [];
    mk_gnode (str "changes") (str "Changeset refs") (Some (BRegex changes_re)) [];
    mk_gnode (str "notes") (str "Git notes") (Some (BPrefix (str "refs/notes/"))) [];
    mk_gnode (str "stash") (str "Git stash") (Some (BRegex (rlit (str "refs/stash")))) [] ].

(* readRefgroupsFromGitconfig: groups in order of first appearance, each
   augmented with the entries of its own section *)
Definition add_group (st : list gnode) (d : bytes * list gentry) : list gnode :=
  let sym := fst d in
  let st1 := get_group (S (length sym)) st sym in
  upd_node st1 sym (fun n => fold_left apply_gentry (snd d) n).

Definition build_store (defs : list (bytes * list gentry)) : list gnode :=
  fold_left add_group defs std_groups.

(* the forest below a symbol *)
Fixpoint to_tree (fuel : nat) (st : list gnode) (n : gnode) : gtree :=
  match fuel with
  | O => GNode (n_sym n) (n_name n) (n_filter n) []
  | S f =>
      GNode (n_sym n) (n_name n) (n_filter n)
            (map (to_tree f st) (filter (fun c => beqb (n_parent c) (n_sym n) && negb (beqb (n_sym c) [])) st))
  end.

Definition top_subs (st : list gnode) : list gtree :=
  map (to_tree (length st) st) (filter (fun c => beqb (n_parent c) [] && negb (beqb (n_sym c) [])) st).

(* fillInTree: every group must have a filter or subgroups; default names;
   the presentation order with the "Other" rows *)
Fixpoint undefined_group (g : gtree) : option bytes :=
  match g with
  | GNode sym _ f subs =>
      match f, subs with
      | None, [] => Some sym
      | _, _ => (fix first (l : list gtree) : option bytes :=
                   match l with [] => None | sg :: l' => match undefined_group sg with Some s => Some s | None => first l' end end) subs
      end
  end.

Definition default_name (sym name : bytes) : bytes := match name with [] => snd (split_key sym) | _ => name end.

Fixpoint group_rows (g : gtree) : list (bytes * bytes) :=
  match g with
  | GNode sym name _ subs =>
      (sym, default_name sym name) ::
      (fix rows (l : list gtree) : list (bytes * bytes) :=
         match l with [] => [] | sg :: l' => group_rows sg ++ rows l' end) subs
      ++ match subs with [] => [] | _ => [(other_sym sym, str "Other")] end
  end.

Definition all_rows (st : list gnode) : list (bytes * bytes) :=
  ([], str "Refs to walk") :: flat_map group_rows (top_subs st)
  ++ (match top_subs st with [] => [] | _ => [(str "other", str "Other")] end)
  ++ [(str "ignored", str "Ignored")].
