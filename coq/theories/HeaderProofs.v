(* HeaderProofs.v — commit and tag parsing extracts exactly the tree / parent
   (object / type) header values, in order, from a structured object: a list of
   header lines (a line with an empty key is a continuation line of a folded
   header such as gpgsig or mergetag), a blank line, an arbitrary message.
   Nothing is ever taken from continuation lines or from the message. *)
From Coq Require Import String.
From GS Require Import GoSem Text Parsers ParsersProofs.
Open Scope N_scope.

Definition ok_line (kv : bytes * bytes) : Prop :=
  ~ In SP (fst kv) /\ ~ In LF (fst kv) /\ ~ In LF (snd kv).

Definition ser_line (kv : bytes * bytes) : bytes := fst kv ++ SP :: snd kv ++ [LF].
Definition ser_headers (hs : list (bytes * bytes)) : bytes := flat_map ser_line hs.
(* headers, blank line, message *)
Definition ser_object (hs : list (bytes * bytes)) (msg : bytes) : bytes := ser_headers hs ++ LF :: msg.

(* ---- one header line ---- *)
Lemma next_header_ser kv rest : ok_line kv -> next_header (ser_line kv ++ rest) = More kv rest.
Proof.
  destruct kv as [k v]. intros (Hsp & _ & Hlf). cbn [fst snd] in *. unfold ser_line. cbn [fst snd].
  assert (Ed : (k ++ SP :: v ++ [LF]) ++ rest = k ++ SP :: (v ++ LF :: rest)).
  { rewrite <- app_assoc. cbn [app]. rewrite <- app_assoc. reflexivity. }
  rewrite Ed. unfold next_header.
  assert (Hne : k ++ SP :: v ++ LF :: rest <> []) by (destruct k; discriminate).
  destruct (k ++ SP :: v ++ LF :: rest) as [|c0 tl] eqn:E; [congruence|]. rewrite <- E. clear Hne.
  rewrite index_byte_app by assumption.
  assert (L1 : blen k + 1 <= blen (k ++ SP :: v ++ LF :: rest)).
  { unfold blen. rewrite app_length. cbn [length]. lia. }
  rewrite bto_some by lia. rewrite bfrom_some by exact L1.
  replace (N.to_nat (blen k)) with (length k) by (unfold blen; lia). rewrite firstn_blen.
  replace (N.to_nat (blen k + 1)) with (length (k ++ [SP])) by (unfold blen; rewrite app_length; simpl; lia).
  replace (k ++ SP :: v ++ LF :: rest) with ((k ++ [SP]) ++ v ++ LF :: rest) by (rewrite <- app_assoc; reflexivity).
  rewrite skipn_blen.
  rewrite index_byte_app by assumption.
  assert (L2 : blen v + 1 <= blen (v ++ LF :: rest)).
  { unfold blen. rewrite app_length. cbn [length]. lia. }
  rewrite bto_some by lia. rewrite bfrom_some by exact L2.
  replace (N.to_nat (blen v)) with (length v) by (unfold blen; lia). rewrite firstn_blen.
  replace (N.to_nat (blen v + 1)) with (length (v ++ [LF])) by (unfold blen; rewrite app_length; simpl; lia).
  replace (v ++ LF :: rest) with ((v ++ [LF]) ++ rest) by (rewrite <- app_assoc; reflexivity).
  rewrite skipn_blen. reflexivity.
Qed.

Lemma headers_fuel_ser hs : forall fuel, (length hs < fuel)%nat -> Forall ok_line hs ->
  headers_fuel fuel (ser_headers hs) = Ok hs.
Proof.
  induction hs as [|kv hs IH]; intros fuel Hf Hok.
  - destruct fuel; [lia|]. reflexivity.
  - destruct fuel as [|f]; [simpl in Hf; lia|].
    inversion Hok as [|? ? H1 H2]; subst.
    cbn [headers_fuel ser_headers flat_map]. rewrite next_header_ser by assumption.
    fold (ser_headers hs). rewrite IH; [reflexivity|simpl in Hf; lia|assumption].
Qed.

Lemma ser_line_length kv : (2 <= length (ser_line kv))%nat.
Proof. unfold ser_line. rewrite app_length. cbn [length]. rewrite app_length. simpl. lia. Qed.

Lemma ser_headers_length hs : (2 * length hs <= length (ser_headers hs))%nat.
Proof.
  induction hs as [|kv hs IH]; [simpl; lia|]. cbn [ser_headers flat_map length]. rewrite app_length.
  fold (ser_headers hs). pose proof (ser_line_length kv). lia.
Qed.

Lemma headers_ser hs : Forall ok_line hs -> headers (ser_headers hs) = Ok hs.
Proof. intros H. unfold headers. apply headers_fuel_ser; [|assumption]. pose proof (ser_headers_length hs). lia. Qed.

(* ---- the end of the header block ---- *)
Lemma index_lflf_skip u : forall t i, ~ In LF u -> index_lflf_from (u ++ t) i = index_lflf_from t (i + blen u).
Proof.
  induction u as [|a u IH]; intros t i Hn.
  - cbn [app]. unfold blen. cbn [length]. f_equal. lia.
  - assert (Ha : a <> LF) by (intros ->; apply Hn; now left).
    assert (Hu : ~ In LF u) by (intros H; apply Hn; now right).
    cbn [app]. destruct (u ++ t) as [|b w] eqn:E.
    + (* everything is empty after a *)
      apply app_eq_nil in E. destruct E as [-> ->]. reflexivity.
    + change (index_lflf_from (a :: b :: w) i) with (if (a =? LF) && (b =? LF) then Some i else index_lflf_from (b :: w) (i + 1)).
      replace (a =? LF) with false by (symmetry; now apply N.eqb_neq). cbn [andb].
      rewrite <- E, IH by assumption. f_equal. unfold blen. cbn [length]. lia.
Qed.

Lemma line_head kv hs rest : ok_line kv -> exists c w, c <> LF /\ ser_headers (kv :: hs) ++ rest = c :: w.
Proof.
  destruct kv as [k v]. intros (_ & Hlf & _). cbn [fst] in Hlf.
  cbn [ser_headers flat_map]. unfold ser_line. cbn [fst snd].
  destruct k as [|c k].
  - exists SP. eexists. split; [discriminate|reflexivity].
  - exists c. eexists. split; [|reflexivity]. intros ->. apply Hlf. now left.
Qed.

Lemma line_split kv : ok_line kv -> exists u, ~ In LF u /\ ser_line kv = u ++ [LF].
Proof.
  destruct kv as [k v]. intros (_ & Hk & Hv). cbn [fst snd] in *.
  exists (k ++ SP :: v). split.
  - intros H. apply in_app_or in H. destruct H as [H|[H|H]]; [tauto|discriminate H|tauto].
  - unfold ser_line. cbn [fst snd]. rewrite <- app_assoc. reflexivity.
Qed.

Lemma index_lflf_ser hs : forall i rest, Forall ok_line hs -> hs <> [] ->
  index_lflf_from (ser_headers hs ++ LF :: rest) i = Some (i + blen (ser_headers hs) - 1).
Proof.
  induction hs as [|kv hs IH]; intros i rest Hok Hne; [congruence|].
  inversion Hok as [|? ? H1 H2]; subst.
  destruct (line_split kv H1) as (u & Hu & Eu).
  cbn [ser_headers flat_map]. fold (ser_headers hs). rewrite Eu.
  replace ((u ++ [LF]) ++ ser_headers hs) with (u ++ LF :: ser_headers hs) by (rewrite <- app_assoc; reflexivity).
  replace ((u ++ LF :: ser_headers hs) ++ LF :: rest) with (u ++ LF :: (ser_headers hs ++ LF :: rest))
    by (rewrite <- app_assoc; reflexivity).
  rewrite index_lflf_skip by assumption.
  assert (El : blen (u ++ LF :: ser_headers hs) = blen u + 1 + blen (ser_headers hs)).
  { unfold blen. rewrite app_length. cbn [length]. lia. }
  destruct hs as [|kv' hs'].
  - change (ser_headers [] ++ LF :: rest) with (LF :: rest).
    change (index_lflf_from (LF :: LF :: rest) (i + blen u)) with (if (LF =? LF) && (LF =? LF) then Some (i + blen u) else index_lflf_from (LF :: rest) (i + blen u + 1)).
    rewrite N.eqb_refl. cbn [andb]. f_equal. rewrite El. change (blen (ser_headers [])) with 0. lia.
  - inversion H2 as [|? ? H3 H4]; subst.
    destruct (line_head kv' hs' (LF :: rest) H3) as (c & w & Hc & Ew). rewrite Ew.
    change (index_lflf_from (LF :: c :: w) (i + blen u)) with (if (LF =? LF) && (c =? LF) then Some (i + blen u) else index_lflf_from (c :: w) (i + blen u + 1)).
    replace (c =? LF) with false by (symmetry; now apply N.eqb_neq).
    rewrite Bool.andb_false_r. rewrite <- Ew, IH by (assumption || discriminate). f_equal. rewrite El.
    pose proof (ser_headers_length (kv' :: hs')) as L. cbn [length] in L. unfold blen in *. lia.
Qed.

Lemma index_lflf_ser_none hs : forall i, Forall ok_line hs -> index_lflf_from (ser_headers hs) i = None.
Proof.
  induction hs as [|kv hs IH]; intros i Hok; [reflexivity|].
  inversion Hok as [|? ? H1 H2]; subst.
  destruct (line_split kv H1) as (u & Hu & Eu).
  cbn [ser_headers flat_map]. fold (ser_headers hs). rewrite Eu.
  replace ((u ++ [LF]) ++ ser_headers hs) with (u ++ LF :: ser_headers hs) by (rewrite <- app_assoc; reflexivity).
  rewrite index_lflf_skip by assumption.
  destruct hs as [|kv' hs'].
  - reflexivity.
  - inversion H2 as [|? ? H3 H4]; subst.
    destruct (line_head kv' hs' [] H3) as (c & w & Hc & Ew). rewrite app_nil_r in Ew. rewrite Ew.
    change (index_lflf_from (LF :: c :: w) (i + blen u)) with (if (LF =? LF) && (c =? LF) then Some (i + blen u) else index_lflf_from (c :: w) (i + blen u + 1)).
    replace (c =? LF) with false by (symmetry; now apply N.eqb_neq).
    rewrite Bool.andb_false_r. rewrite <- Ew. apply IH. assumption.
Qed.

Lemma header_block_ser hs msg : Forall ok_line hs -> hs <> [] ->
  header_block (ser_object hs msg) = Ok (ser_headers hs).
Proof.
  intros Hok Hne. unfold header_block, ser_object, index_lflf. rewrite index_lflf_ser by assumption.
  pose proof (ser_headers_length hs) as L. assert (1 <= length hs)%nat by (destruct hs; [congruence|simpl; lia]).
  unfold of_opt. replace (0 + blen (ser_headers hs) - 1 + 1) with (blen (ser_headers hs)) by (unfold blen; lia).
  rewrite bto_some by (unfold blen; rewrite app_length; lia).
  replace (N.to_nat (blen (ser_headers hs))) with (length (ser_headers hs)) by (unfold blen; lia).
  rewrite firstn_blen. reflexivity.
Qed.

(* an object without a message and without the blank line (git never writes one, the parser accepts it) *)
Lemma last_ser_headers kv hs : exists w, ser_headers (kv :: hs) = w ++ [LF].
Proof.
  revert kv. induction hs as [|kv' hs IH]; intros kv.
  - cbn [ser_headers flat_map]. rewrite app_nil_r. unfold ser_line. exists (fst kv ++ SP :: snd kv).
    rewrite <- app_assoc. reflexivity.
  - destruct (IH kv') as (w & Ew). cbn [ser_headers flat_map] in *. exists (ser_line kv ++ w).
    fold (ser_headers hs) in *. rewrite <- app_assoc. f_equal. exact Ew.
Qed.

Lemma header_block_ser_nomsg hs : Forall ok_line hs -> hs <> [] ->
  header_block (ser_headers hs) = Ok (ser_headers hs).
Proof.
  intros Hok Hne. unfold header_block, index_lflf. rewrite index_lflf_ser_none by assumption.
  destruct hs as [|kv hs]; [congruence|]. destruct (last_ser_headers kv hs) as (w & Ew). rewrite Ew.
  destruct (w ++ [LF]) as [|c0 tl] eqn:E; [destruct w; discriminate|]. rewrite <- E.
  unfold bidx. replace (N.to_nat (blen (w ++ [LF]) - 1)) with (length w) by (unfold blen; rewrite app_length; simpl; lia).
  rewrite nth_error_app2 by lia. rewrite Nat.sub_diag. cbn [nth_error]. rewrite N.eqb_refl. reflexivity.
Qed.

(* ---- what the loops extract ---- *)
Definition values_of (key : bytes) (hs : list (bytes * bytes)) : list bytes :=
  flat_map (fun kv => if beqb (fst kv) key then [snd kv] else []) hs.

Definition oid_of (v : bytes) : bytes := match new_oid v with Some o => o | None => [] end.

(* the readable form: exactly one well-formed tree header and well-formed parent headers *)
Lemma commit_loop_ok hs tv t :
  values_of (str "tree") hs = [tv] -> new_oid tv = Some t ->
  Forall (fun v => new_oid v <> None) (values_of (str "parent") hs) ->
  commit_loop hs [] None = Ok (map oid_of (values_of (str "parent") hs), Some t).
Proof.
  revert tv t.
  assert (G : forall hs ps,
    Forall (fun v => new_oid v <> None) (values_of (str "parent") hs) ->
    (forall t, values_of (str "tree") hs = [] ->
       commit_loop hs ps (Some t) = Ok (ps ++ map oid_of (values_of (str "parent") hs), Some t)) /\
    (forall tv t, values_of (str "tree") hs = [tv] -> new_oid tv = Some t ->
       commit_loop hs ps None = Ok (ps ++ map oid_of (values_of (str "parent") hs), Some t))).
  { clear hs. induction hs as [|[k v] hs IH]; intros ps Hp.
    - split; [intros t _; cbn; now rewrite app_nil_r|intros tv t H; discriminate H].
    - cbn [values_of flat_map fst snd] in *. fold (values_of (str "parent") hs) in *. fold (values_of (str "tree") hs) in *.
      cbn [commit_loop]. destruct (beqb k (str "parent")) eqn:Ek.
      + apply beqb_eq in Ek. subst k. change (beqb (str "parent") (str "tree")) with false in *.
        cbn [app] in *. inversion Hp as [|? ? Hv Hrest]; subst.
        destruct (new_oid v) as [p|] eqn:Ev; [|congruence].
        destruct (IH (ps ++ [p]) Hrest) as [I1 I2]. cbn [map].
        assert (Eo : oid_of v = p) by (unfold oid_of; now rewrite Ev). rewrite Eo.
        split.
        * intros t Hn. rewrite (I1 t Hn). now rewrite <- app_assoc.
        * intros tv t H1 H2. rewrite (I2 tv t H1 H2). now rewrite <- app_assoc.
      + destruct (beqb k (str "tree")) eqn:Et.
        * apply beqb_eq in Et. subst k. cbn [app] in *. split; [intros t H; discriminate H|].
          intros tv t H1 H2. inversion H1 as [[E1 E2]]. subst tv. rewrite H2.
          destruct (IH ps Hp) as [I1 _]. apply I1. assumption.
        * cbn [app] in *. apply IH. assumption. }
  intros tv t H1 H2 H3. destruct (G hs [] H3) as [_ I2]. rewrite (I2 tv t H1 H2). reflexivity.
Qed.

Theorem commit_headers hs msg tv t :
  hs <> [] -> Forall ok_line hs ->
  values_of (str "tree") hs = [tv] -> new_oid tv = Some t ->
  Forall (fun v => new_oid v <> None) (values_of (str "parent") hs) ->
  parse_commit (ser_object hs msg) =
    Ok (mk_commit (sat32b (blen (ser_object hs msg))) (map oid_of (values_of (str "parent") hs)) t).
Proof.
  intros Hne Hok H1 H2 H3. unfold parse_commit.
  rewrite header_block_ser by assumption. cbn [bind].
  rewrite headers_ser by assumption. cbn [bind].
  rewrite (commit_loop_ok hs tv t H1 H2 H3). reflexivity.
Qed.

(* no tree header: rejected, whatever the message or the continuation lines say *)
Lemma commit_loop_no_tree hs : forall ps, values_of (str "tree") hs = [] ->
  match commit_loop hs ps None with Ok (_, None) | Err => True | _ => False end.
Proof.
  induction hs as [|[k v] hs IH]; intros ps Hn; [exact I|].
  cbn [values_of flat_map fst snd] in Hn. fold (values_of (str "tree") hs) in Hn. cbn [commit_loop].
  destruct (beqb k (str "parent")) eqn:Ek.
  - apply beqb_eq in Ek. subst k. change (beqb (str "parent") (str "tree")) with false in Hn. cbn [app] in Hn.
    destruct (new_oid v); [apply IH; assumption|exact I].
  - destruct (beqb k (str "tree")); [discriminate Hn|]. apply IH. assumption.
Qed.

Theorem commit_without_tree_rejected hs msg :
  hs <> [] -> Forall ok_line hs -> values_of (str "tree") hs = [] -> parse_commit (ser_object hs msg) = Err.
Proof.
  intros Hne Hok Hn. unfold parse_commit.
  rewrite header_block_ser by assumption. cbn [bind]. rewrite headers_ser by assumption. cbn [bind].
  pose proof (commit_loop_no_tree hs [] Hn) as H. destruct (commit_loop hs [] None) as [[ps [t|]]| |]; try contradiction; reflexivity.
Qed.

(* ---- tags ---- *)
Lemma tag_loop_ok hs ov o ty :
  values_of (str "object") hs = [ov] -> new_oid ov = Some o -> values_of (str "type") hs = [ty] ->
  tag_loop hs None None = Ok (Some o, Some ty).
Proof.
  assert (G : forall hs ob tp,
    (match ob with Some _ => values_of (str "object") hs = [] | None => exists ov, values_of (str "object") hs = [ov] /\ new_oid ov <> None end) ->
    (match tp with Some _ => values_of (str "type") hs = [] | None => exists ty, values_of (str "type") hs = [ty] end) ->
    tag_loop hs ob tp =
      Ok (match ob with Some x => Some x | None => option_map oid_of (hd_error (values_of (str "object") hs)) end,
          match tp with Some x => Some x | None => hd_error (values_of (str "type") hs) end)).
  { clear. induction hs as [|[k v] hs IH]; intros ob tp Ho Ht.
    - destruct ob, tp; cbn; try reflexivity; try (destruct Ho as (? & H & _); discriminate H); destruct Ht as (? & H); discriminate H.
    - cbn [values_of flat_map fst snd] in *. fold (values_of (str "object") hs) in *. fold (values_of (str "type") hs) in *.
      cbn [tag_loop]. destruct (beqb k (str "object")) eqn:Ek.
      + apply beqb_eq in Ek. subst k. change (beqb (str "object") (str "type")) with false in *. cbn [app] in *.
        destruct ob as [x|]; [discriminate Ho|]. destruct Ho as (ov & E & Hv). inversion E as [[E1 E2]]. subst ov.
        destruct (new_oid v) as [o|] eqn:Ev; [|congruence].
        rewrite (IH (Some o) tp E2 Ht). cbn [hd_error option_map]. unfold oid_of. rewrite Ev. reflexivity.
      + destruct (beqb k (str "type")) eqn:Et.
        * apply beqb_eq in Et. subst k. cbn [app] in *.
          destruct tp as [x|]; [discriminate Ht|]. destruct Ht as (ty & E). inversion E as [[E1 E2]]. subst ty.
          rewrite (IH ob (Some v) Ho E2). cbn [hd_error]. reflexivity.
        * cbn [app] in *. apply IH; assumption. }
  intros H1 H2 H3. rewrite (G hs None None).
  - rewrite H1, H3. cbn [hd_error option_map]. unfold oid_of. rewrite H2. reflexivity.
  - exists ov. split; [assumption|congruence].
  - exists ty. assumption.
Qed.

Theorem tag_headers hs msg ov o ty :
  hs <> [] -> Forall ok_line hs ->
  values_of (str "object") hs = [ov] -> new_oid ov = Some o -> values_of (str "type") hs = [ty] ->
  parse_tag (ser_object hs msg) = Ok (mk_tag (sat32b (blen (ser_object hs msg))) o ty).
Proof.
  intros Hne Hok H1 H2 H3. unfold parse_tag.
  rewrite header_block_ser by assumption. cbn [bind]. rewrite headers_ser by assumption. cbn [bind].
  rewrite (tag_loop_ok hs ov o ty H1 H2 H3). reflexivity.
Qed.

(* non-vacuity: a signed merge commit whose signature and message imitate headers *)
Definition ex_oid (c : N) : bytes := repeat c 40.
Example commit_headers_example :
  let hs := [(str "tree", ex_oid 97); (str "parent", ex_oid 98); (str "parent", ex_oid 99);
             (str "author", str "A U Thor <a@example.com> 1 +0000");
             (str "gpgsig", str "-----BEGIN PGP SIGNATURE-----"); ([], []); ([], str "parent " ++ ex_oid 100);
             ([], str "tree " ++ ex_oid 101); ([], str "-----END PGP SIGNATURE-----")] in
  let msg := str "subject" ++ [LF; LF] ++ str "parent " ++ ex_oid 102 ++ [LF] in
  Forall ok_line hs /\
  parse_commit (ser_object hs msg) =
    Ok (mk_commit (blen (ser_object hs msg)) [oid_of (ex_oid 98); oid_of (ex_oid 99)] (oid_of (ex_oid 97))).
Proof.
  cbv zeta. split.
  - repeat constructor; cbn; intros H; repeat (destruct H as [H|H]; [discriminate H|]); exact H.
  - vm_compute. reflexivity.
Qed.
