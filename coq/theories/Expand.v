(* Expand.v — the compositional tree metrics equal the metrics of the explicit
   recursive expansion of the tree (property C04). *)
From GS Require Import GoSem Counts Repo RepoProofs Deferred Scan ScanTree ScanMain ScanFinal.
Open Scope N_scope.

Definition names_nonempty (r : repo) : Prop :=
  forall o s es e, lookup r o = Some (Tree s es) -> In e es -> e_name e <> [].

Definition is_kind (k : xkind) (x : xitem) : bool :=
  match x_kind x, k with
  | XDir, XDir | XFile, XFile | XLink, XLink | XSub, XSub => true
  | _, _ => false
  end.

Lemma count_x_eq k xs : count_x k xs = N.of_nat (length (filter (is_kind k) xs)).
Proof. reflexivity. Qed.

Lemma count_x_app k xs ys : count_x k (xs ++ ys) = count_x k xs + count_x k ys.
Proof. rewrite !count_x_eq, filter_app, app_length. lia. Qed.

Lemma count_x_prefix k n xs : count_x k (map (prefix_path n) xs) = count_x k xs.
Proof.
  rewrite !count_x_eq. f_equal. induction xs as [|x xs IH]; [reflexivity|]. cbn [map filter].
  replace (is_kind k (prefix_path n x)) with (is_kind k x) by reflexivity.
  destruct (is_kind k x); cbn [length]; rewrite IH; reflexivity.
Qed.

Definition fsize (xs : list xitem) : N :=
  sumN (map x_size (filter (fun x => match x_kind x with XFile => true | _ => false end) xs)).

Lemma fsize_app xs ys : fsize (xs ++ ys) = fsize xs + fsize ys.
Proof. unfold fsize. rewrite filter_app, map_app, sumN_app. reflexivity. Qed.

Lemma fsize_prefix n xs : fsize (map (prefix_path n) xs) = fsize xs.
Proof.
  unfold fsize. f_equal. induction xs as [|x xs IH]; [reflexivity|]. cbn [map filter prefix_path x_kind].
  destruct (x_kind x); cbn [map prefix_path x_size]; rewrite ?IH; reflexivity.
Qed.

Definition depths (xs : list xitem) : list N := map (fun x => N.of_nat (length (x_path x))) xs.
Definition plens (xs : list xitem) : list N := map (fun x => path_len (x_path x)) xs.

Lemma maxN_cons a l : maxN (a :: l) = N.max a (maxN l).
Proof. reflexivity. Qed.

Lemma maxN_map_add (c : N) l : l <> [] -> maxN (map (fun x => c + x) l) = c + maxN l.
Proof.
  induction l as [|a l IH]; intros H; [congruence|]. cbn [map]. rewrite !maxN_cons.
  destruct l as [|b l'].
  - cbn [map maxN fold_right]. lia.
  - rewrite IH by discriminate. lia.
Qed.

Lemma depths_prefix n xs : depths (map (prefix_path n) xs) = map (fun d => 1 + d) (depths xs).
Proof. unfold depths. rewrite !map_map. apply map_ext. intros x. cbn [prefix_path x_path length]. lia. Qed.

(* all paths in an expansion are non-empty lists of non-empty names *)
Definition good_path (p : list bytes) : Prop := p <> [] /\ Forall (fun c => c <> []) p.

Lemma path_len_cons n p : p <> [] -> path_len (n :: p) = blen n + 1 + path_len p.
Proof.
  intros H. unfold path_len. destruct p as [|c p']; [congruence|].
  cbn [map length]. assert (E : forall x l, sumN (x :: l) = x + sumN l) by reflexivity. rewrite !E. lia.
Qed.

Lemma path_len_single n : path_len [n] = blen n.
Proof. unfold path_len. cbn [map length sumN fold_right]. lia. Qed.

Lemma path_len_pos p : good_path p -> 1 <= path_len p.
Proof.
  intros [Hne Hall]. destruct p as [|c p']; [congruence|]. inversion Hall as [|? ? Hc Hp]; subst.
  unfold path_len. cbn [map length]. assert (E : forall x l, sumN (x :: l) = x + sumN l) by reflexivity. rewrite E.
  assert (1 <= blen c). { unfold blen. destruct c; [congruence|]. cbn [length]. lia. } lia.
Qed.

Lemma plens_prefix n xs : Forall (fun x => good_path (x_path x)) xs ->
  plens (map (prefix_path n) xs) = map (fun d => blen n + 1 + d) (plens xs).
Proof.
  intros H. unfold plens. rewrite !map_map. apply map_ext_in'. intros x Hx. cbn [prefix_path x_path].
  rewrite Forall_forall in H. apply path_len_cons. apply (H x Hx).
Qed.

Lemma good_prefix n xs : n <> [] -> Forall (fun x => good_path (x_path x)) xs ->
  Forall (fun x => good_path (x_path x)) (map (prefix_path n) xs).
Proof.
  intros Hn H. rewrite Forall_forall in *. intros x Hx. apply in_map_iff in Hx. destruct Hx as (y & <- & Hy).
  cbn [prefix_path x_path]. destruct (H y Hy) as [H1 H2]. split; [discriminate|]. constructor; assumption.
Qed.

(* the items contributed by one entry *)
Definition entry_items (r' : repo) (e : entry) : list xitem :=
  match entry_kind (e_mode e) with
  | EkTree => mk_x [e_name e] XDir 0 :: map (prefix_path (e_name e)) (expand r' (e_oid e))
  | EkSub => [mk_x [e_name e] XSub 0]
  | EkLink => [mk_x [e_name e] XLink 0]
  | EkBlob => [mk_x [e_name e] XFile (blob_size_in r' (e_oid e))]
  end.

Lemma expand_here o s es r : expand ((o, Tree s es) :: r) o = flat_map (entry_items r) es.
Proof. cbn [expand]. rewrite N.eqb_refl. reflexivity. Qed.

Lemma expand_cons o1 ob1 r o : o <> o1 -> expand ((o1, ob1) :: r) o = expand r o.
Proof. intros H. cbn [expand]. destruct (N.eqb_spec o o1); [contradiction|reflexivity]. Qed.

Lemma metrics_app xs ys :
  metrics_of (xs ++ ys) =
  mk_tm (N.max (tm_depth (metrics_of xs)) (maxN (depths ys)))
        (N.max (tm_len (metrics_of xs)) (maxN (plens ys)))
        (tm_trees (metrics_of xs) + count_x XDir ys)
        (tm_blobs (metrics_of xs) + count_x XFile ys)
        (tm_bsize (metrics_of xs) + fsize ys)
        (tm_links (metrics_of xs) + count_x XLink ys)
        (tm_subs (metrics_of xs) + count_x XSub ys).
Proof.
  unfold metrics_of. cbn [tm_depth tm_len tm_trees tm_blobs tm_bsize tm_links tm_subs].
  rewrite !map_app, !maxN_app, !count_x_app. fold (fsize (xs ++ ys)). rewrite fsize_app.
  unfold depths, plens, fsize. f_equal; lia.
Qed.

Lemma single_counts n k sz :
  count_x XDir [mk_x [n] k sz] = (match k with XDir => 1 | _ => 0 end) /\
  count_x XFile [mk_x [n] k sz] = (match k with XFile => 1 | _ => 0 end) /\
  count_x XLink [mk_x [n] k sz] = (match k with XLink => 1 | _ => 0 end) /\
  count_x XSub [mk_x [n] k sz] = (match k with XSub => 1 | _ => 0 end) /\
  fsize [mk_x [n] k sz] = (match k with XFile => sz | _ => 0 end).
Proof. destruct k; repeat split; try reflexivity; unfold fsize; cbn; lia. Qed.

Section WithRepo.
Variable R0 : repo.

(* one entry: appending its items to the expansion so far = tm_add_entry *)
Lemma entry_step r' acc e :
  e_name e <> [] ->
  Forall (fun x => good_path (x_path x)) (expand r' (e_oid e)) ->
  metrics_of (acc ++ entry_items r' e)
  = tm_add_entry (fun o => metrics_of (expand r' o)) (blob_size_in r') (metrics_of acc) e.
Proof.
  intros Hn Hgood. rewrite metrics_app. unfold entry_items, tm_add_entry.
  destruct (entry_kind (e_mode e)) eqn:K.
  - set (sub := expand r' (e_oid e)) in *.
    assert (Ed : maxN (depths (mk_x [e_name e] XDir 0 :: map (prefix_path (e_name e)) sub)) = tm_depth (metrics_of sub) + 1).
    { unfold depths at 1. cbn [map x_path length]. rewrite maxN_cons. fold (depths (map (prefix_path (e_name e)) sub)).
      rewrite depths_prefix. unfold metrics_of. cbn [tm_depth]. fold (depths sub).
      destruct (depths sub) as [|d ds] eqn:E; [cbn [map maxN fold_right]; lia|].
      rewrite maxN_map_add by discriminate. lia. }
    assert (El : maxN (plens (mk_x [e_name e] XDir 0 :: map (prefix_path (e_name e)) sub))
                 = if 0 <? tm_len (metrics_of sub) then blen (e_name e) + 1 + tm_len (metrics_of sub) else blen (e_name e)).
    { unfold plens at 1. cbn [map x_path]. rewrite maxN_cons, path_len_single. fold (plens (map (prefix_path (e_name e)) sub)).
      rewrite plens_prefix by assumption. unfold metrics_of. cbn [tm_len]. fold (plens sub).
      destruct sub as [|x0 sub'] eqn:Es.
      - cbn [plens map maxN fold_right]. cbn. lia.
      - assert (Hne : plens (x0 :: sub') <> []) by discriminate.
        rewrite maxN_map_add by assumption.
        assert (1 <= maxN (plens (x0 :: sub'))).
        { inversion Hgood as [|? ? Hx0 _]; subst. pose proof (path_len_pos _ Hx0).
          unfold plens. cbn [map]. rewrite maxN_cons. lia. }
        destruct (0 <? maxN (plens (x0 :: sub'))) eqn:E0; lia. }
    rewrite Ed, El.
    assert (Ec : forall k, count_x k (mk_x [e_name e] XDir 0 :: map (prefix_path (e_name e)) sub)
                 = (match k with XDir => 1 | _ => 0 end) + count_x k sub).
    { intros k. change (mk_x [e_name e] XDir 0 :: map (prefix_path (e_name e)) sub)
        with ([mk_x [e_name e] XDir 0] ++ map (prefix_path (e_name e)) sub).
      rewrite count_x_app, count_x_prefix. destruct k; reflexivity. }
    assert (Ef : fsize (mk_x [e_name e] XDir 0 :: map (prefix_path (e_name e)) sub) = fsize sub).
    { change (mk_x [e_name e] XDir 0 :: map (prefix_path (e_name e)) sub)
        with ([mk_x [e_name e] XDir 0] ++ map (prefix_path (e_name e)) sub).
      rewrite fsize_app, fsize_prefix. reflexivity. }
    rewrite !Ec, Ef. unfold metrics_of at 3 4 5 6 7. cbn [tm_trees tm_blobs tm_bsize tm_links tm_subs].
    fold (fsize sub). f_equal; lia.
  - destruct (single_counts (e_name e) XSub 0) as (C1 & C2 & C3 & C4 & C5). rewrite C1, C2, C3, C4, C5.
    unfold depths, plens. cbn [map x_path length maxN fold_right]. rewrite path_len_single. f_equal; lia.
  - destruct (single_counts (e_name e) XLink 0) as (C1 & C2 & C3 & C4 & C5). rewrite C1, C2, C3, C4, C5.
    unfold depths, plens. cbn [map x_path length maxN fold_right]. rewrite path_len_single. f_equal; lia.
  - destruct (single_counts (e_name e) XFile (blob_size_in r' (e_oid e))) as (C1 & C2 & C3 & C4 & C5).
    rewrite C1, C2, C3, C4, C5.
    unfold depths, plens. cbn [map x_path length maxN fold_right]. rewrite path_len_single. f_equal; lia.
Qed.

End WithRepo.

Lemma entry_items_good r' e : e_name e <> [] ->
  Forall (fun x => good_path (x_path x)) (expand r' (e_oid e)) ->
  Forall (fun x => good_path (x_path x)) (entry_items r' e).
Proof.
  intros Hn H. unfold entry_items.
  assert (G1 : good_path [e_name e]) by (split; [discriminate|constructor; [assumption|constructor]]).
  destruct (entry_kind (e_mode e)).
  - constructor; [exact G1|]. now apply good_prefix.
  - constructor; [exact G1|constructor].
  - constructor; [exact G1|constructor].
  - constructor; [exact G1|constructor].
Qed.

(* names of every tree in a suffix are non-empty *)
Definition nonempty_in (r : repo) : Prop := forall o s es e, In (o, Tree s es) r -> In e es -> e_name e <> [].

Lemma expand_good : forall r, nonempty_in r -> forall o, Forall (fun x => good_path (x_path x)) (expand r o).
Proof.
  induction r as [|[o1 ob1] r IH]; intros Hne o; [constructor|].
  assert (Hne' : nonempty_in r) by (intros o' s es e Hin He; eapply Hne; [right; exact Hin|exact He]).
  cbn [expand]. destruct (o =? o1); [|now apply IH]. destruct ob1 as [|s es| |]; try constructor.
  assert (G : forall es', (forall e, In e es' -> In e es) -> Forall (fun x => good_path (x_path x)) (flat_map (entry_items r) es')).
  { induction es' as [|e es' IHe]; intros Hsub; [constructor|]. cbn [flat_map]. apply Forall_app. split.
    - apply entry_items_good; [|now apply IH]. eapply Hne; [left; reflexivity|apply Hsub; now left].
    - apply IHe. intros; apply Hsub; now right. }
  apply G. auto.
Qed.

Lemma tmetrics_expand_suffix : forall r, wf_b r = true -> nonempty_in r -> forall t,
  tmetrics_of r t = metrics_of (expand r t).
Proof.
  induction r as [|[o1 ob1] r IH]; intros Hwf Hne t; [reflexivity|].
  apply wf_cons in Hwf. destruct Hwf as (H1 & H2 & H3).
  assert (Hne' : nonempty_in r) by (intros o' s es e Hin He; eapply Hne; [right; exact Hin|exact He]).
  cbn [tmetrics_of expand]. destruct (t =? o1); [|now apply IH].
  destruct ob1 as [|s es| |]; try reflexivity.
  fold (entry_items r).
  assert (G : forall es' acc, (forall e, In e es' -> In e es) ->
     fold_left (tm_add_entry (tmetrics_of r) (blob_size_in r)) es' (metrics_of acc)
     = metrics_of (acc ++ flat_map (entry_items r) es')).
  { induction es' as [|e es' IHe]; intros acc Hsub; [now rewrite app_nil_r|]. cbn [fold_left flat_map].
    rewrite app_assoc. rewrite <- IHe by (intros; apply Hsub; now right). f_equal.
    rewrite (entry_step r acc e).
    - unfold tm_add_entry. destruct (entry_kind (e_mode e)); try reflexivity. rewrite (IH H3 Hne' (e_oid e)). reflexivity.
    - eapply Hne; [left; reflexivity|apply Hsub; now left].
    - now apply expand_good. }
  specialize (G es [] (fun e H => H)). exact G.
Qed.

Lemma names_nonempty_in r : wf_b r = true -> names_nonempty r -> nonempty_in r.
Proof.
  intros Hwf H o s es e Hin He. eapply (H o s es e); [|exact He].
  clear H He. induction r as [|[o1 ob1] r IH]; [destruct Hin|].
  apply wf_cons in Hwf. destruct Hwf as (H1 & H2 & H3). destruct Hin as [E|Hin].
  - inversion E; subst. simpl. now rewrite N.eqb_refl.
  - rewrite lookup_cons_ne; [now apply IH|]. intros ->. apply H1. apply in_map_iff. exists (o1, Tree s es). auto.
Qed.

Theorem tmetrics_expand r t s es : wf_b r = true -> names_nonempty r ->
  lookup r t = Some (Tree s es) -> tmetrics_of r t = metrics_of (expand r t).
Proof. intros Hwf Hn _. apply tmetrics_expand_suffix; [assumption|now apply names_nonempty_in]. Qed.
