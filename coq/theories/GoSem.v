(* GoSem.v — the stated meaning of the Go constructs that the translator
   tools/go2coq emits.  Trusted: this file *is* the semantics the generated
   definitions are read in.  Unsigned integers of width w are N reduced
   modulo 2^w; conversions truncate; comparison results are Coq booleans.
   Strings are lists of bytes (N < 256); indexing and slicing out of range is
   a run-time panic in Go and is modelled as the value [None]. *)
From Coq Require Export NArith ZArith List Bool Lia.
From Coq Require Export ZifyN ZifyNat ZifyBool.
Export ListNotations.
Open Scope N_scope.

Ltac Zify.zify_post_hook ::= Z.div_mod_to_equations.

Definition MaxUint32 : N := 4294967295.
Definition MaxUint64 : N := 18446744073709551615.
Definition two32 : N := 4294967296.
Definition two64 : N := 18446744073709551616.

Lemma widths : two32 = 2^32 /\ two64 = 2^64 /\ MaxUint32 = 2^32 - 1 /\ MaxUint64 = 2^64 - 1.
Proof. vm_compute. repeat split; reflexivity. Qed.

Definition u32 (x : N) : N := x mod two32.
Definition u64 (x : N) : N := x mod two64.

Definition in32 (x : N) : Prop := x < two32.
Definition in64 (x : N) : Prop := x < two64.

Definition add32 (a b : N) : N := u32 (a + b).
Definition add64 (a b : N) : N := u64 (a + b).

Lemma u32_in32 x : in32 (u32 x).
Proof. unfold in32, u32, two32. lia. Qed.
Lemma u64_in64 x : in64 (u64 x).
Proof. unfold in64, u64, two64. lia. Qed.
Lemma u32_id x : in32 x -> u32 x = x.
Proof. unfold in32, u32, two32. lia. Qed.
Lemma u64_id x : in64 x -> u64 x = x.
Proof. unfold in64, u64, two64. lia. Qed.
Lemma in32_in64 x : in32 x -> in64 x.
Proof. unfold in32, in64, two32, two64. lia. Qed.

(* ---- byte strings ---- *)
Definition bytes := list N.

Fixpoint beqb (a b : bytes) : bool :=
  match a, b with
  | [], [] => true
  | x :: a', y :: b' => (x =? y) && beqb a' b'
  | _, _ => false
  end.

Lemma beqb_eq a b : beqb a b = true <-> a = b.
Proof.
  revert b; induction a as [|x a IH]; intros [|y b]; simpl; split; intros H;
    try congruence; try reflexivity.
  - apply andb_true_iff in H as [H1 H2]. apply N.eqb_eq in H1. apply IH in H2. congruence.
  - inversion H; subst. rewrite N.eqb_refl. simpl. now apply IH.
Qed.

Lemma beqb_refl a : beqb a a = true.
Proof. now apply beqb_eq. Qed.

(* strings.HasPrefix(s, p) *)
Fixpoint has_prefix (s p : bytes) : bool :=
  match p, s with
  | [], _ => true
  | y :: p', x :: s' => (x =? y) && has_prefix s' p'
  | _ :: _, [] => false
  end.

Lemma has_prefix_spec s p : has_prefix s p = true <-> exists r, s = p ++ r.
Proof.
  revert s; induction p as [|y p IH]; intros s; simpl.
  - split; [intros _; now exists s|intros _; now destruct s].
  - destruct s as [|x s]; simpl.
    + split; [discriminate|intros [r Hr]; discriminate].
    + rewrite andb_true_iff, N.eqb_eq, IH. split.
      * intros [-> [r ->]]. now exists r.
      * intros [r Hr]. inversion Hr; subst. split; [reflexivity|now exists r].
Qed.

(* strings.HasSuffix(s, p) *)
Definition has_suffix (s p : bytes) : bool := has_prefix (rev s) (rev p).

Lemma has_suffix_spec s p : has_suffix s p = true <-> exists r, s = r ++ p.
Proof.
  unfold has_suffix. rewrite has_prefix_spec. split; intros [r Hr].
  - exists (rev r). rewrite <- (rev_involutive s), Hr, rev_app_distr, rev_involutive. reflexivity.
  - exists (rev r). rewrite Hr, rev_app_distr. reflexivity.
Qed.

Definition blen (s : bytes) : N := N.of_nat (length s).

(* s[i] — None is an index-out-of-range panic *)
Definition bidx (s : bytes) (i : N) : option N := nth_error s (N.to_nat i).

(* s[a:] — None is a slice-bounds panic *)
Definition bfrom (s : bytes) (a : N) : option bytes :=
  if a <=? blen s then Some (skipn (N.to_nat a) s) else None.

(* s[:b] *)
Definition bto (s : bytes) (b : N) : option bytes :=
  if b <=? blen s then Some (firstn (N.to_nat b) s) else None.

(* s[a:b] *)
Definition bslice (s : bytes) (a b : N) : option bytes :=
  if (a <=? b) && (b <=? blen s) then Some (firstn (N.to_nat (b - a)) (skipn (N.to_nat a) s)) else None.

(* strings.IndexByte *)
Fixpoint index_byte_from (s : bytes) (c : N) (i : N) : option N :=
  match s with
  | [] => None
  | x :: s' => if x =? c then Some i else index_byte_from s' c (i + 1)
  end.
Definition index_byte (s : bytes) (c : N) : option N := index_byte_from s c 0.

Lemma index_byte_from_spec s c i :
  match index_byte_from s c i with
  | Some j => exists k, j = i + N.of_nat k /\ (k < length s)%nat /\
               nth_error s k = Some c /\ ~ In c (firstn k s)
  | None => ~ In c s
  end.
Proof.
  revert i; induction s as [|x s IH]; intros i; simpl.
  - tauto.
  - destruct (N.eqb_spec x c) as [->|Hne].
    + exists 0%nat. simpl. repeat split; try lia; tauto.
    + specialize (IH (i + 1)). destruct (index_byte_from s c (i + 1)) as [j|].
      * destruct IH as (k & -> & Hk & Hn & Hnot). exists (S k). simpl.
        repeat split; try lia; try assumption. intros [H|H]; [congruence|tauto].
      * intros [H|H]; [congruence|tauto].
Qed.

(* option monad for run-time panics; isub is Go's int subtraction used as an
   index or slice bound: a negative result can only panic there. *)
Definition obind {A B} (o : option A) (f : A -> option B) : option B :=
  match o with Some a => f a | None => None end.
Definition isub (a b : N) : option N := if b <=? a then Some (a - b) else None.
